// Package hmods contains the harness' own Caddy modules (recording handlers,
// scripted matchers) registered through the public plugin API, the per-connection
// event recorder they write to, and helpers to load the real layer4 code.
package hmods

import (
	"context"
	"crypto/tls"
	"encoding/json"
	"errors"
	"fmt"
	"io"
	"net"
	"os"
	"reflect"
	"sync"
	"sync/atomic"
	"time"

	"github.com/caddyserver/caddy/v2"
	"go.uber.org/zap"

	"github.com/mholt/caddy-l4/layer4"

	"verifharness/vnet"
)

// ---------------------------------------------------------------------------
// Recorder

// Event is one observation made by a harness module.
type Event struct {
	Seq  int64         `json:"seq"`
	T    time.Duration `json:"t"`
	Kind string        `json:"kind"` // match, enter, exit, read, take, sink-end, fallback, udp-read, ...
	Who  string        `json:"who"`
	Data []byte        `json:"data,omitempty"`
	N    int           `json:"n,omitempty"`
	S    string        `json:"s,omitempty"`
	S2   string        `json:"s2,omitempty"`
}

// ConnRec collects what harness modules observed for one connection.
type ConnRec struct {
	ID      string
	mu      sync.Mutex
	events  []Event
	streams map[string][]byte
	order   []string // consumer names in order of first read
	done    map[string]chan struct{}
	born    time.Time // set for records created before the harness tracked the id
}

var (
	recMu sync.RWMutex
	recs  = map[string]*ConnRec{}
	gseq  atomic.Int64
)

// Track starts recording for the connection id and returns its record. With real sockets a handler can run
// (even finish) before the harness learns the connection's id; events of untracked ids are therefore kept for a
// short while as orphans and adopted by a Track that follows within 3 seconds.
func Track(id string) *ConnRec {
	recMu.Lock()
	defer recMu.Unlock()
	if o := orphans[id]; o != nil {
		delete(orphans, id)
		if time.Since(o.born) < 3*time.Second {
			recs[id] = o
			return o
		}
	}
	r := &ConnRec{ID: id, streams: map[string][]byte{}, done: map[string]chan struct{}{}}
	recs[id] = r
	return r
}

var orphans = map[string]*ConnRec{}

func orphan(id string) *ConnRec {
	recMu.Lock()
	defer recMu.Unlock()
	if r := recs[id]; r != nil {
		return r
	}
	if o := orphans[id]; o != nil && time.Since(o.born) < 3*time.Second {
		return o
	}
	if len(orphans) > 4096 {
		for k, o := range orphans {
			if time.Since(o.born) > 3*time.Second {
				delete(orphans, k)
			}
		}
		if len(orphans) > 4096 {
			return nil
		}
	}
	o := &ConnRec{ID: id, streams: map[string][]byte{}, done: map[string]chan struct{}{}, born: time.Now()}
	orphans[id] = o
	return o
}

// Untrack forgets the record for id.
func Untrack(id string) {
	recMu.Lock()
	delete(recs, id)
	recMu.Unlock()
}

// Release forgets this record unless a newer record has taken its id (real sockets reuse ports).
func (r *ConnRec) Release() {
	recMu.Lock()
	if recs[r.ID] == r {
		delete(recs, r.ID)
	}
	recMu.Unlock()
}

func lookup(id string) *ConnRec {
	recMu.RLock()
	r := recs[id]
	recMu.RUnlock()
	return r
}

// Add appends an event.
func (r *ConnRec) Add(e Event) {
	if r == nil {
		return
	}
	e.Seq = gseq.Add(1)
	e.T = vnet.Now()
	r.mu.Lock()
	if len(r.events) < 100000 {
		r.events = append(r.events, e)
	}
	r.mu.Unlock()
}

func (r *ConnRec) addStream(name string, b []byte) {
	if r == nil {
		return
	}
	r.mu.Lock()
	if _, ok := r.streams[name]; !ok {
		r.order = append(r.order, name)
		r.streams[name] = nil
	}
	r.streams[name] = append(r.streams[name], b...)
	r.mu.Unlock()
}

// Events returns a copy of the events so far.
func (r *ConnRec) Events() []Event {
	r.mu.Lock()
	defer r.mu.Unlock()
	return append([]Event(nil), r.events...)
}

// Stream returns the bytes a named consumer has read so far.
func (r *ConnRec) Stream(name string) []byte {
	r.mu.Lock()
	defer r.mu.Unlock()
	return append([]byte(nil), r.streams[name]...)
}

// Consumers returns consumer names in order of their first read.
func (r *ConnRec) Consumers() []string {
	r.mu.Lock()
	defer r.mu.Unlock()
	return append([]string(nil), r.order...)
}

func (r *ConnRec) doneCh(name string) chan struct{} {
	r.mu.Lock()
	defer r.mu.Unlock()
	ch := r.done[name]
	if ch == nil {
		ch = make(chan struct{})
		r.done[name] = ch
	}
	return ch
}

// WaitDone waits until the named consumer/span signalled completion.
func (r *ConnRec) WaitDone(name string, d time.Duration) bool {
	select {
	case <-r.doneCh(name):
		return true
	case <-time.After(d):
		return false
	}
}

func (r *ConnRec) signalDone(name string) {
	if r == nil {
		return
	}
	ch := r.doneCh(name)
	select {
	case <-ch:
	default:
		close(ch)
	}
}

// Count returns the number of events of the given kind (and who, if not "").
func (r *ConnRec) Count(kind, who string) int {
	r.mu.Lock()
	defer r.mu.Unlock()
	n := 0
	for _, e := range r.events {
		if e.Kind == kind && (who == "" || e.Who == who) {
			n++
		}
	}
	return n
}

// ---------------------------------------------------------------------------
// Finding the scripted connection underneath arbitrary wrappers

var netConnType = reflect.TypeOf((*net.Conn)(nil)).Elem()

// BaseConn strips layer4.Connection, tls.Conn and any struct wrapper with an
// embedded "Conn net.Conn" field until it reaches the transport connection.
func BaseConn(c net.Conn) net.Conn {
	for depth := 0; depth < 64 && c != nil; depth++ {
		switch v := c.(type) {
		case *vnet.End:
			return v
		case *layer4.Connection:
			c = v.Conn
			continue
		case *tls.Conn:
			c = v.NetConn()
			continue
		case *net.TCPConn, *net.UnixConn, *net.UDPConn:
			return c
		}
		rv := reflect.ValueOf(c)
		for rv.Kind() == reflect.Ptr || rv.Kind() == reflect.Interface {
			if rv.IsNil() {
				return c
			}
			rv = rv.Elem()
		}
		if rv.Kind() != reflect.Struct {
			return c
		}
		f := rv.FieldByName("Conn")
		if !f.IsValid() || !f.Type().Implements(netConnType) {
			return c
		}
		if !f.CanInterface() {
			return c
		}
		inner, ok := f.Interface().(net.Conn)
		if !ok || inner == nil {
			return c
		}
		c = inner
	}
	return c
}

// ConnID identifies the transport connection underneath cx: the scripted
// End's ID, or network+remote address for real sockets / UDP associations.
func ConnID(cx *layer4.Connection) string {
	if v := cx.GetVar("verif_conn_id"); v != nil {
		if s, ok := v.(string); ok {
			return s
		}
	}
	base := BaseConn(cx)
	if e, ok := base.(*vnet.End); ok {
		return e.ID
	}
	if base == nil || base.RemoteAddr() == nil {
		return "?"
	}
	if _, ok := base.(*net.TCPConn); ok && base.LocalAddr() != nil {
		// real TCP: a client port alone is not unique (the same local port may be in use towards another listener)
		return RealConnID(base.RemoteAddr().String(), base.LocalAddr().String())
	}
	return base.RemoteAddr().Network() + ":" + base.RemoteAddr().String()
}

// RealConnID is the recorder id of a real TCP connection, from the client's and the server's address.
func RealConnID(clientAddr, serverAddr string) string {
	return "tcp:" + clientAddr + ">" + serverAddr
}

func recOf(cx *layer4.Connection) *ConnRec {
	id := ConnID(cx)
	if r := lookup(id); r != nil {
		return r
	}
	// Not tracked (yet): with real sockets a handler can run before the harness knows the connection's id, and a
	// harness that offers a scripted connection a moment before it calls Track must not lose the first events either.
	return orphan(id)
}

// ---------------------------------------------------------------------------
// Handlers

func init() {
	caddy.RegisterModule(&Sink{})
	caddy.RegisterModule(&Take{})
	caddy.RegisterModule(&Span{})
	caddy.RegisterModule(&Closer{})
	caddy.RegisterModule(&SetRepl{})
	caddy.RegisterModule(&Gate{})
	caddy.RegisterModule(&M1{})
	caddy.RegisterModule(&M2{})
	caddy.RegisterModule(&M3{})
	caddy.RegisterModule(&M4{})
}

// Sink is a terminal handler that reads the connection to EOF (or Max bytes)
// with a reader buffer of BufSize and records every byte.
type Sink struct {
	Name    string `json:"name,omitempty"`
	BufSize int    `json:"bufsize,omitempty"`
	Max     int    `json:"max,omitempty"`
	Echo    bool   `json:"echo,omitempty"`
	// Reply, if set, is written to the connection once after the first read.
	Reply string `json:"reply,omitempty"`
	// DelayUs sleeps between reads (slow consumer).
	DelayUs int `json:"delay_us,omitempty"`
	// Gate: hold the first Read at the named start line until the harness opens it
	Gate string `json:"gate,omitempty"`
}

func (*Sink) CaddyModule() caddy.ModuleInfo {
	return caddy.ModuleInfo{ID: "layer4.handlers.verif_sink", New: func() caddy.Module { return new(Sink) }}
}

func (s *Sink) Handle(cx *layer4.Connection, _ layer4.Handler) error {
	rec := recOf(cx)
	name := s.Name
	if name == "" {
		name = "sink"
	}
	rec.Add(Event{Kind: "enter", Who: name, Data: append([]byte(nil), cx.MatchingBytes()...)})
	bs := s.BufSize
	if bs <= 0 {
		bs = 4096
	}
	buf := make([]byte, bs)
	total := 0
	var err error
	replied := false
	if s.Gate != "" {
		// start line right in front of the first Read (see Gate)
		st := gateOf(s.Gate)
		st.arrived.Add(1)
		deadline := time.Now().Add(3 * time.Second)
		for i := 0; !st.open.Load(); i++ {
			if i%4096 == 4095 && time.Now().After(deadline) {
				break
			}
		}
	}
	for {
		want := len(buf)
		if s.Max > 0 && s.Max-total < want {
			want = s.Max - total
		}
		if want == 0 {
			break
		}
		var n int
		n, err = cx.Read(buf[:want])
		if n > 0 {
			total += n
			rec.addStream(name, buf[:n])
			rec.Add(Event{Kind: "read", Who: name, N: n})
			if s.Echo {
				if _, werr := cx.Write(buf[:n]); werr != nil {
					err = werr
					break
				}
			}
			if s.Reply != "" && !replied {
				replied = true
				_, _ = cx.Write([]byte(s.Reply))
			}
		}
		if err != nil {
			break
		}
		if s.DelayUs > 0 {
			time.Sleep(time.Duration(s.DelayUs) * time.Microsecond)
		}
	}
	es := ""
	if err != nil {
		es = err.Error()
	}
	rec.Add(Event{Kind: "sink-end", Who: name, N: total, S: es})
	rec.signalDone(name)
	return nil
}

// Take is a non-terminal handler that consumes exactly N bytes and calls next.
type Take struct {
	Name string `json:"name,omitempty"`
	N    int    `json:"n,omitempty"`
	// Flip: hand a wrapped connection down the chain (as the tls and proxy_protocol handlers do) that swaps the bytes
	// 'a' and 'b' of everything read through it: later routes and handlers have to work on that connection
	Flip bool `json:"flip,omitempty"`
}

// flipConn reads from the layer4 connection it wraps and swaps 'a' and 'b'.
type flipConn struct{ net.Conn }

func (f flipConn) Read(p []byte) (int, error) {
	n, err := f.Conn.Read(p)
	for i := 0; i < n; i++ {
		switch p[i] {
		case 'a':
			p[i] = 'b'
		case 'b':
			p[i] = 'a'
		}
	}
	return n, err
}

func (*Take) CaddyModule() caddy.ModuleInfo {
	return caddy.ModuleInfo{ID: "layer4.handlers.verif_take", New: func() caddy.Module { return new(Take) }}
}

func (t *Take) Handle(cx *layer4.Connection, next layer4.Handler) error {
	rec := recOf(cx)
	rec.Add(Event{Kind: "enter", Who: t.Name, Data: append([]byte(nil), cx.MatchingBytes()...)})
	if t.N > 0 {
		buf := make([]byte, t.N)
		n, err := io.ReadFull(cx, buf)
		rec.addStream(t.Name, buf[:n])
		rec.Add(Event{Kind: "take", Who: t.Name, N: n, S: errString(err), S2: flipWord(t.Flip)})
		if err != nil {
			rec.signalDone(t.Name)
			return nil // client ended early: nothing more to do
		}
	} else if t.Flip {
		rec.Add(Event{Kind: "take", Who: t.Name, N: 0, S2: "flip"})
	}
	if t.Flip {
		cx = cx.Wrap(flipConn{cx})
	}
	err := next.Handle(cx)
	rec.Add(Event{Kind: "exit", Who: t.Name, S: errString(err)})
	rec.signalDone(t.Name)
	return err
}

func flipWord(b bool) string {
	if b {
		return "flip"
	}
	return ""
}

// Span logs entry (with what it can see of the connection) and exit around next.
type Span struct {
	Name string `json:"name,omitempty"`
	// Placeholders to expand at entry and record (e.g. "{l4.conn.remote_addr}").
	Expand []string `json:"expand,omitempty"`
}

func (*Span) CaddyModule() caddy.ModuleInfo {
	return caddy.ModuleInfo{ID: "layer4.handlers.verif_span", New: func() caddy.Module { return new(Span) }}
}

// SpanInfo is the JSON stored in the S2 field of a span's enter event.
type SpanInfo struct {
	Remote   string            `json:"remote"`
	Local    string            `json:"local"`
	Expanded map[string]string `json:"expanded,omitempty"`
	TLS      *TLSInfo          `json:"tls,omitempty"`
}

type TLSInfo struct {
	ServerName string `json:"server_name"`
	ALPN       string `json:"alpn"`
	Version    uint16 `json:"version"`
}

func (s *Span) Handle(cx *layer4.Connection, next layer4.Handler) error {
	rec := recOf(cx)
	info := SpanInfo{}
	if a := cx.RemoteAddr(); a != nil {
		info.Remote = a.String()
	}
	if a := cx.LocalAddr(); a != nil {
		info.Local = a.String()
	}
	if len(s.Expand) > 0 {
		info.Expanded = map[string]string{}
		if repl, ok := cx.Context.Value(layer4.ReplacerCtxKey).(*caddy.Replacer); ok {
			for _, k := range s.Expand {
				info.Expanded[k] = repl.ReplaceAll(k, "")
			}
		}
	}
	b, _ := json.Marshal(info)
	rec.Add(Event{Kind: "enter", Who: s.Name, Data: append([]byte(nil), cx.MatchingBytes()...), S2: string(b)})
	err := next.Handle(cx)
	if rec == nil {
		// real sockets: the harness may have started tracking this connection only after the handler began
		rec = recOf(cx)
		if rec == nil && os.Getenv("VERIF_DEBUG_SPAN") != "" {
			fmt.Fprintf(os.Stdout, "SPAN-EXIT-UNTRACKED id=%q name=%s t=%v err=%v\n", ConnID(cx), s.Name, vnet.Now(), err)
		}
	}
	rec.Add(Event{Kind: "exit", Who: s.Name, S: errString(err)})
	rec.signalDone(s.Name)
	return err
}

// Closer closes the connection itself and then calls next (or returns).
type Closer struct {
	Name string `json:"name,omitempty"`
	Next bool   `json:"next,omitempty"`
}

func (*Closer) CaddyModule() caddy.ModuleInfo {
	return caddy.ModuleInfo{ID: "layer4.handlers.verif_close", New: func() caddy.Module { return new(Closer) }}
}

func (c *Closer) Handle(cx *layer4.Connection, next layer4.Handler) error {
	rec := recOf(cx)
	rec.Add(Event{Kind: "enter", Who: c.Name})
	_ = cx.Close()
	if c.Next {
		return next.Handle(cx)
	}
	return nil
}

func errString(err error) string {
	if err == nil {
		return ""
	}
	return err.Error()
}

// ---------------------------------------------------------------------------
// Scripted matchers

// MatcherSpec is the configuration of a scripted matcher. Its verdict is a
// pure function of the first Need bytes: YES iff (prefix[At] == Eq) != Neg;
// with fewer than Need bytes available it asks for more data.
type MatcherSpec struct {
	ID      string `json:"id,omitempty"`
	Need    int    `json:"need,omitempty"`
	At      int    `json:"at,omitempty"`
	Eq      int    `json:"eq,omitempty"`
	Neg     bool   `json:"neg,omitempty"`
	Const   *bool  `json:"const,omitempty"`   // Need==0: constant verdict
	Pattern string `json:"pattern,omitempty"` // full (default), sip, peek, over
	Sip     int    `json:"sip,omitempty"`
	ErrIf   bool   `json:"err_if,omitempty"` // return a matcher error instead of YES
	// Gate, if set, makes the matcher answer NO as soon as the first byte differs from it
	// (needs 1 byte); only gated-in streams go on to the Need/At/Eq rule.
	Gate *int `json:"gate,omitempty"`
}

// Eval is the monitor-side reference evaluation: "yes", "no" or "more".
func (m *MatcherSpec) Eval(prefix []byte) string {
	if m.Gate != nil {
		if len(prefix) < 1 {
			return "more"
		}
		if int(prefix[0]) != *m.Gate {
			return "no"
		}
	}
	if m.Need == 0 {
		if m.Const != nil && !*m.Const {
			return "no"
		}
		return "yes"
	}
	if len(prefix) < m.Need {
		return "more"
	}
	if (int(prefix[m.At]) == m.Eq) != m.Neg {
		return "yes"
	}
	return "no"
}

func (m *MatcherSpec) match(cx *layer4.Connection) (bool, error) {
	rec := recOf(cx)
	seen := append([]byte(nil), cx.MatchingBytes()...)
	verdict, err := m.doMatch(cx)
	v := "no"
	if err != nil {
		if errors.Is(err, layer4.ErrConsumedAllPrefetchedBytes) {
			v = "more"
		} else {
			v = "err"
		}
	} else if verdict {
		v = "yes"
	}
	rec.Add(Event{Kind: "match", Who: m.ID, Data: seen, S: v})
	return verdict, err
}

func (m *MatcherSpec) doMatch(cx *layer4.Connection) (bool, error) {
	if m.Gate != nil {
		b := cx.MatchingBytes()
		if len(b) < 1 {
			return false, layer4.ErrConsumedAllPrefetchedBytes
		}
		if int(b[0]) != *m.Gate {
			return false, nil
		}
	}
	if m.Need == 0 {
		return m.Const == nil || *m.Const, nil
	}
	var buf []byte
	switch m.Pattern {
	case "peek":
		b := cx.MatchingBytes()
		if len(b) < m.Need {
			return false, layer4.ErrConsumedAllPrefetchedBytes
		}
		buf = b[:m.Need]
	case "sip":
		k := m.Sip
		if k <= 0 {
			k = 1
		}
		buf = make([]byte, 0, m.Need)
		tmp := make([]byte, k)
		for len(buf) < m.Need {
			want := k
			if m.Need-len(buf) < want {
				want = m.Need - len(buf)
			}
			n, err := cx.Read(tmp[:want])
			buf = append(buf, tmp[:n]...)
			if err != nil {
				return false, err
			}
		}
	default: // full, over
		buf = make([]byte, m.Need)
		if _, err := io.ReadFull(cx, buf); err != nil {
			return false, err
		}
	}
	verdict := (int(buf[m.At]) == m.Eq) != m.Neg
	if m.Pattern == "over" {
		tmp := make([]byte, 333)
		for {
			if _, err := cx.Read(tmp); err != nil {
				break
			}
		}
	}
	if verdict && m.ErrIf {
		return false, errors.New("scripted matcher error")
	}
	return verdict, nil
}

type M1 struct{ MatcherSpec }
type M2 struct{ MatcherSpec }
type M3 struct{ MatcherSpec }
type M4 struct{ MatcherSpec }

func (*M1) CaddyModule() caddy.ModuleInfo {
	return caddy.ModuleInfo{ID: "layer4.matchers.verif_m1", New: func() caddy.Module { return new(M1) }}
}
func (*M2) CaddyModule() caddy.ModuleInfo {
	return caddy.ModuleInfo{ID: "layer4.matchers.verif_m2", New: func() caddy.Module { return new(M2) }}
}
func (*M3) CaddyModule() caddy.ModuleInfo {
	return caddy.ModuleInfo{ID: "layer4.matchers.verif_m3", New: func() caddy.Module { return new(M3) }}
}
func (*M4) CaddyModule() caddy.ModuleInfo {
	return caddy.ModuleInfo{ID: "layer4.matchers.verif_m4", New: func() caddy.Module { return new(M4) }}
}
func (m *M1) Match(cx *layer4.Connection) (bool, error) { return m.match(cx) }
func (m *M2) Match(cx *layer4.Connection) (bool, error) { return m.match(cx) }
func (m *M3) Match(cx *layer4.Connection) (bool, error) { return m.match(cx) }
func (m *M4) Match(cx *layer4.Connection) (bool, error) { return m.match(cx) }

// ---------------------------------------------------------------------------
// Loading the real code

var quietOnce sync.Once

// Quiet routes Caddy's default log to discard (the monitors never decide on
// log output) and points Caddy's data/config dirs into dir.
func Quiet(dir string) {
	quietOnce.Do(func() {
		if dir != "" {
			_ = os.MkdirAll(dir, 0o755)
			os.Setenv("XDG_DATA_HOME", dir)
			os.Setenv("XDG_CONFIG_HOME", dir)
			os.Setenv("HOME", dir)
		}
		cfg := `{"admin":{"disabled":true,"config":{"persist":false}},"logging":{"logs":{"default":{"writer":{"output":"discard"}}}}}`
		if os.Getenv("VERIF_DEBUG") != "" {
			cfg = `{"admin":{"disabled":true,"config":{"persist":false}},"logging":{"logs":{"default":{"level":"DEBUG"}}}}`
		}
		if err := caddy.Load([]byte(cfg), true); err != nil {
			fmt.Println("hmods.Quiet: caddy.Load:", err)
		}
		// Modules provisioned through a bare caddy.Context log to a zap development logger (debug level, "stderr"),
		// which the config above does not reach: gigabytes of per-read debug lines in a thorough run. The level stays
		// as it is (the debug branches of the repository code keep running); only the sink changes: the Go-level
		// os.Stderr now points at /dev/null. Panics, fatal errors and race reports are written to file descriptor 2
		// (or GORACE log_path) by the runtime and still reach the child's output file.
		if os.Getenv("VERIF_DEBUG") == "" {
			if f, err := os.OpenFile(os.DevNull, os.O_WRONLY, 0); err == nil {
				os.Stderr = f
			}
		}
	})
}

// NewContext returns a fresh Caddy context for provisioning modules directly.
func NewContext() (caddy.Context, context.CancelFunc) {
	if UseActiveContext {
		return caddy.NewContext(caddy.ActiveContext())
	}
	return caddy.NewContext(caddy.Context{Context: context.Background()})
}

// UseActiveContext makes NewContext derive from the running Caddy configuration (needed when modules such as the tls
// handler have to find the apps of that configuration, e.g. a tls app with the harness certificate).
var UseActiveContext bool

// LoadApp provisions a layer4 App from its JSON through the module loader.
func LoadApp(ctx caddy.Context, cfg string) (*layer4.App, error) {
	mod, err := ctx.LoadModuleByID("layer4", json.RawMessage(cfg))
	if err != nil {
		return nil, err
	}
	return mod.(*layer4.App), nil
}

// LoadRoutes unmarshals and provisions a route list.
func LoadRoutes(ctx caddy.Context, routesJSON string) (layer4.RouteList, error) {
	var rl layer4.RouteList
	if err := json.Unmarshal([]byte(routesJSON), &rl); err != nil {
		return nil, err
	}
	if err := rl.Provision(ctx); err != nil {
		return nil, err
	}
	return rl, nil
}

// LoadWrapper provisions the listener wrapper module.
func LoadWrapper(ctx caddy.Context, cfg string) (*layer4.ListenerWrapper, error) {
	mod, err := ctx.LoadModuleByID("caddy.listeners.layer4", json.RawMessage(cfg))
	if err != nil {
		return nil, err
	}
	return mod.(*layer4.ListenerWrapper), nil
}

// NopLogger is the logger handed to route compilation.
var NopLogger = zap.NewNop()

// Fallback is a recording terminal handler used as "next" at route level.
type Fallback struct {
	Name    string
	BufSize int
	Read    bool // read to EOF and record
}

func (f *Fallback) Handle(cx *layer4.Connection) error {
	rec := recOf(cx)
	rec.Add(Event{Kind: "fallback", Who: f.Name, Data: append([]byte(nil), cx.MatchingBytes()...)})
	if f.Read {
		s := &Sink{Name: f.Name, BufSize: f.BufSize}
		return s.Handle(cx, nil)
	}
	return nil
}

// SetRepl consumes N bytes from the connection and sets the replacer key Key to Values[d], where d is the decimal
// digit in the last consumed byte: a per-connection placeholder value, the way {l4.tls.server_name} is one.
type SetRepl struct {
	Key    string   `json:"key,omitempty"`
	N      int      `json:"n,omitempty"`
	Values []string `json:"values,omitempty"`
}

func (*SetRepl) CaddyModule() caddy.ModuleInfo {
	return caddy.ModuleInfo{ID: "layer4.handlers.verif_setrepl", New: func() caddy.Module { return new(SetRepl) }}
}

func (s *SetRepl) Handle(cx *layer4.Connection, next layer4.Handler) error {
	buf := make([]byte, s.N)
	if _, err := io.ReadFull(cx, buf); err != nil {
		return nil
	}
	repl := cx.Context.Value(layer4.ReplacerCtxKey).(*caddy.Replacer)
	repl.Set(s.Key, s.Values[int(buf[s.N-1]-'0')%len(s.Values)])
	return next.Handle(cx)
}

// Gate holds every connection that reaches it, spinning, until the harness opens the gate: the goroutines of all
// held connections then go on within nanoseconds of each other (a start line for simultaneous first reads).
type Gate struct {
	Name string `json:"name,omitempty"`
}

type gateState struct {
	arrived atomic.Int32
	open    atomic.Bool
}

var gates sync.Map // name -> *gateState

func gateOf(name string) *gateState {
	g, _ := gates.LoadOrStore(name, &gateState{})
	return g.(*gateState)
}

func (*Gate) CaddyModule() caddy.ModuleInfo {
	return caddy.ModuleInfo{ID: "layer4.handlers.verif_gate", New: func() caddy.Module { return new(Gate) }}
}

func (g *Gate) Handle(cx *layer4.Connection, next layer4.Handler) error {
	st := gateOf(g.Name)
	st.arrived.Add(1)
	deadline := time.Now().Add(3 * time.Second)
	for i := 0; !st.open.Load(); i++ {
		if i%4096 == 4095 && time.Now().After(deadline) {
			break
		}
	}
	return next.Handle(cx)
}

// OpenGate waits (up to a second) until n connections are held at the gate, opens it and forgets it.
// It reports how many were held.
func OpenGate(name string, n int) int {
	st := gateOf(name)
	for dl := time.Now().Add(time.Second); int(st.arrived.Load()) < n && time.Now().Before(dl); {
		time.Sleep(20 * time.Microsecond)
	}
	got := int(st.arrived.Load())
	st.open.Store(true)
	gates.Delete(name)
	return got
}
