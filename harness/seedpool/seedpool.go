// Package seedpool merges the hand-written well-formed first messages (gen) with the well-formed messages of the
// C14 reference generators into one list of targets (matcher + configuration + valid seeds) for C04 and C06.
package seedpool

import (
	"fmt"
	"strings"

	"verifharness/gen"
	"verifharness/props/c14"
)

// Targets = hand-written seeds plus the well-formed messages of the C14 generators (per matcher and
// configuration), which add e.g. HTTP/2 prior-knowledge requests, RDP tokens, OpenVPN auth/crypt messages.
func Targets(seed int64) []*gen.Target {
	out := gen.Targets()
	for _, name := range []string{"http", "rdp", "dns", "openvpn", "winbox", "postgres", "socks4", "socks5", "proxy_protocol", "ssh", "xmpp", "regexp", "wireguard"} {
		byCfg := map[string]*gen.Target{}
		var order []string
		for _, sd := range c14.Seeds(name, seed, 60) {
			if strings.Contains(sd.Class, "ts-now") || len(sd.Input) == 0 {
				continue
			}
			key := fmt.Sprintf("%s|%v", sd.Config, sd.Opts.UDP)
			t := byCfg[key]
			if t == nil {
				if len(byCfg) >= 12 {
					continue
				}
				t = &gen.Target{Matcher: name, Config: sd.Config, UDP: sd.Opts.UDP, Stream: !sd.Opts.UDP, Label: fmt.Sprintf("c14#%d", len(byCfg)+1)}
				byCfg[key] = t
				order = append(order, key)
			}
			if len(t.Seeds) < 8 {
				t.Seeds = append(t.Seeds, sd.Input)
			}
		}
		for _, k := range order {
			out = append(out, byCfg[k])
		}
	}
	return out
}
