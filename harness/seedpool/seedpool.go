// Package seedpool merges the hand-written well-formed first messages (gen) with the well-formed messages of the
// C14 reference generators into one list of targets (matcher + configuration + valid seeds) for C04 and C06.
package seedpool

import (
	"fmt"
	"strings"

	"verifharness/gen"
	"verifharness/props/c14"
)

// Targets = hand-written seeds plus the well-formed messages of the C14 generators (per matcher and
// configuration), which add e.g. HTTP/2 prior-knowledge requests, RDP tokens, OpenVPN auth/crypt messages.
func Targets(seed int64) []*gen.Target {
	out := gen.Targets()
	for _, name := range []string{"http", "rdp", "dns", "openvpn", "winbox", "postgres", "socks4", "socks5", "proxy_protocol", "ssh", "xmpp", "regexp", "wireguard"} {
		byCfg := map[string]*gen.Target{}
		var order []string
		for _, sd := range c14.Seeds(name, seed, 60) {
			if strings.Contains(sd.Class, "ts-now") || len(sd.Input) == 0 {
				continue
			}
			key := fmt.Sprintf("%s|%v", sd.Config, sd.Opts.UDP)
			t := byCfg[key]
			if t == nil {
				if len(byCfg) >= 12 {
					continue
				}
				t = &gen.Target{Matcher: name, Config: sd.Config, UDP: sd.Opts.UDP, Stream: !sd.Opts.UDP, Label: fmt.Sprintf("c14#%d", len(byCfg)+1)}
				byCfg[key] = t
				order = append(order, key)
			}
			if len(t.Seeds) < 8 {
				t.Seeds = append(t.Seeds, sd.Input)
			}
		}
		for _, k := range order {
			out = append(out, byCfg[k])
		}
	}
	// OpenVPN tls-crypt-v2 resets that the matcher unwraps with the server key alone (server_key set, no client_keys,
	// timestamps ignored): the configurations in which unauthenticated bytes get furthest. They are rare among the
	// first generator outputs, so they are looked for further down the stream.
	extra := map[string]*gen.Target{}
	for _, sd := range c14.Seeds("openvpn", seed, 3000) {
		if sd.Opts.UDP || !strings.Contains(sd.Class, "crypt2") || !strings.Contains(sd.Config, `"ignore_timestamp":true`) ||
			!strings.Contains(sd.Config, "server_key") || strings.Contains(sd.Config, "client_keys") || len(sd.Input) == 0 {
			continue
		}
		t := extra[sd.Config]
		if t == nil {
			if len(extra) >= 3 {
				continue
			}
			t = &gen.Target{Matcher: "openvpn", Config: sd.Config, Stream: true, Label: fmt.Sprintf("c14#crypt2-serverkey-%d", len(extra)+1)}
			extra[sd.Config] = t
			out = append(out, t)
		}
		if len(t.Seeds) < 6 {
			t.Seeds = append(t.Seeds, sd.Input)
		}
	}
	return out
}
