// Package drive starts the real layer4 code (App, listener wrapper, route
// lists) on scripted transports and plays scripted clients against it.
package drive

import (
	"encoding/json"
	"fmt"
	"io"
	"math/rand"
	"net"
	"sync"
	"sync/atomic"
	"time"

	"github.com/caddyserver/caddy/v2"

	"github.com/mholt/caddy-l4/layer4"

	"verifharness/hmods"
	"verifharness/vnet"
)

// AppRun is a started layer4 App listening on one scripted listener.
type AppRun struct {
	App    *layer4.App
	Name   string
	L      *vnet.Listener
	ctx    caddy.Context
	cancel func()
}

// StartApp provisions and starts an App with one server whose routes are
// routesJSON (a JSON array) on the scripted listener verif/<name>.
func StartApp(routesJSON string, matchingTimeout string) (*AppRun, error) {
	name := vnet.UniqueName("app")
	cfg := fmt.Sprintf(`{"servers":{"s":{"listen":["verif/%s:1"],"routes":%s,"matching_timeout":%q}}}`, name, routesJSON, matchingTimeout)
	return StartAppConfig(cfg, name)
}

// StartAppConfig starts an App from a full app JSON; name is the scripted
// listener the caller wants to use (may be "").
func StartAppConfig(cfg, name string) (*AppRun, error) {
	ctx, cancel := hmods.NewContext()
	app, err := hmods.LoadApp(ctx, cfg)
	if err != nil {
		cancel()
		return nil, fmt.Errorf("load: %w", err)
	}
	var l *vnet.Listener
	if name != "" {
		l = vnet.GetListener(name)
	}
	if err := app.Start(); err != nil {
		cancel()
		return nil, fmt.Errorf("start: %w", err)
	}
	return &AppRun{App: app, Name: name, L: l, ctx: ctx, cancel: cancel}, nil
}

// Stop stops the app and cancels its context (runs module cleanup).
func (a *AppRun) Stop() {
	_ = a.App.Stop()
	a.cancel()
}

var connSeq atomic.Int64

// Dial creates a scripted connection and hands its server end to the app.
// The client address is unique per connection.
func (a *AppRun) Dial(id string) (client, server *vnet.End) {
	client, server = NewPair(id)
	a.L.Inject(server)
	return
}

// NewPair creates a scripted connection with unique fabricated addresses.
func NewPair(id string) (client, server *vnet.End) {
	n := connSeq.Add(1)
	ca := vnet.TCPAddr(fmt.Sprintf("10.%d.%d.%d", (n>>16)&0xff, (n>>8)&0xff, n&0xff), 1024+int(n%60000))
	sa := vnet.TCPAddr("192.0.2.1", 443)
	return vnet.Pair(id, ca, sa)
}

// Segmentation splits n bytes into segment sizes according to a named class.
func Segmentation(class string, n int, r *rand.Rand) []int {
	var out []int
	add := func(k int) {
		if k > 0 {
			out = append(out, k)
		}
	}
	switch class {
	case "single":
		add(n)
	case "trickle1":
		for i := 0; i < n; i++ {
			add(1)
		}
	case "edges":
		// boundaries around pooled-capacity edges
		rem := n
		for _, k := range []int{2047, 1, 1, 2048, 2049, 4095, 1} {
			if rem <= 0 {
				break
			}
			if k > rem {
				k = rem
			}
			add(k)
			rem -= k
		}
		add(rem)
	case "chunk2048":
		for rem := n; rem > 0; rem -= 2048 {
			k := 2048
			if rem < k {
				k = rem
			}
			add(k)
		}
	case "small":
		for rem := n; rem > 0; {
			k := 1 + r.Intn(16)
			if k > rem {
				k = rem
			}
			add(k)
			rem -= k
		}
	case "headtrickle":
		// first bytes one by one, rest in one piece
		h := 24
		if h > n {
			h = n
		}
		for i := 0; i < h; i++ {
			add(1)
		}
		add(n - h)
	default: // random
		for rem := n; rem > 0; {
			var k int
			switch r.Intn(4) {
			case 0:
				k = 1 + r.Intn(8)
			case 1:
				k = 1 + r.Intn(600)
			case 2:
				k = 2040 + r.Intn(20)
			default:
				k = 1 + r.Intn(5000)
			}
			if k > rem {
				k = rem
			}
			add(k)
			rem -= k
		}
	}
	return out
}

// SegClasses lists the segmentation classes.
var SegClasses = []string{"single", "trickle1", "edges", "chunk2048", "small", "headtrickle", "random", "random"}

// WriteSegments writes wire to w split into the given segment sizes; every
// pauseEvery segments it yields for pause (0 = never).
func WriteSegments(w io.Writer, wire []byte, segs []int, pauseEvery int, pause time.Duration) error {
	off := 0
	for i, k := range segs {
		if off+k > len(wire) {
			k = len(wire) - off
		}
		if k <= 0 {
			break
		}
		if _, err := w.Write(wire[off : off+k]); err != nil {
			return err
		}
		off += k
		if pauseEvery > 0 && (i+1)%pauseEvery == 0 {
			if pause > 0 {
				time.Sleep(pause)
			}
		}
	}
	if off < len(wire) {
		if _, err := w.Write(wire[off:]); err != nil {
			return err
		}
	}
	return nil
}

// SegWriter is a net.Conn wrapper whose Write chops the data into segments of
// cycling sizes (used underneath a TLS client so that record bytes are
// fragmented on the wire).
type SegWriter struct {
	net.Conn
	Sizes []int
	i     int
	mu    sync.Mutex
}

func (s *SegWriter) Write(p []byte) (int, error) {
	s.mu.Lock()
	defer s.mu.Unlock()
	total := 0
	for len(p) > 0 {
		k := len(p)
		if len(s.Sizes) > 0 {
			k = s.Sizes[s.i%len(s.Sizes)]
			s.i++
			if k > len(p) {
				k = len(p)
			}
			if k <= 0 {
				k = 1
			}
		}
		n, err := s.Conn.Write(p[:k])
		total += n
		if err != nil {
			return total, err
		}
		p = p[k:]
	}
	return total, nil
}

// ReadAll drains r until EOF/error and returns what it got.
func ReadAll(r io.Reader) []byte {
	b, _ := io.ReadAll(r)
	return b
}

// J marshals v to a JSON string (panics on error: inputs are harness-made).
func J(v any) string {
	b, err := json.Marshal(v)
	if err != nil {
		panic(err)
	}
	return string(b)
}

// HoldWriter passes writes through until Hold is called; from then on it collects them and Flush sends everything
// collected as one segment (a TLS client's last record and its close_notify leaving in one packet, as TCP does).
type HoldWriter struct {
	net.Conn
	mu   sync.Mutex
	hold bool
	buf  []byte
}

func (h *HoldWriter) Write(p []byte) (int, error) {
	h.mu.Lock()
	if h.hold {
		h.buf = append(h.buf, p...)
		h.mu.Unlock()
		return len(p), nil
	}
	h.mu.Unlock()
	return h.Conn.Write(p)
}

// Hold starts collecting.
func (h *HoldWriter) Hold() { h.mu.Lock(); h.hold = true; h.mu.Unlock() }

// Flush sends what was collected in one write and stops collecting.
func (h *HoldWriter) Flush() error {
	h.mu.Lock()
	b := h.buf
	h.buf, h.hold = nil, false
	h.mu.Unlock()
	if len(b) == 0 {
		return nil
	}
	// (crypto/tls sets the write deadline to "now" once it has sent its close_notify, so that later writes fail; the
	// bytes collected here are that close_notify and what preceded it)
	_ = h.Conn.SetWriteDeadline(time.Time{})
	_, err := h.Conn.Write(b)
	return err
}
