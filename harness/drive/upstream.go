package drive

import (
	"crypto/tls"
	"fmt"
	"io"
	"net"
	"os"
	"sync"
	"sync/atomic"
	"syscall"
	"time"

	"verifharness/vnet"
)

// UpConn is one connection accepted by a harness upstream server.
type UpConn struct {
	N      int
	Conn   net.Conn
	Remote string
	Start  time.Duration

	hold *HoldWriter // TLS upstreams: lets the last record and the close_notify leave in one segment

	mu       sync.Mutex
	received []byte
	sawEOF   bool
	eofAt    time.Duration
	readErr  string
	done     chan struct{}
}

// Received returns a copy of the bytes read so far.
func (u *UpConn) Received() []byte {
	u.mu.Lock()
	defer u.mu.Unlock()
	return append([]byte(nil), u.received...)
}

// SawEOF reports whether the upstream observed a clean end-of-stream from the proxy.
func (u *UpConn) SawEOF() (bool, time.Duration, string) {
	u.mu.Lock()
	defer u.mu.Unlock()
	return u.sawEOF, u.eofAt, u.readErr
}

// Done is closed when the upstream's handler for this connection returned.
func (u *UpConn) Done() <-chan struct{} { return u.done }

// WriteLastAndCloseWrite writes the last piece of the upstream's stream and half-closes. On a TLS upstream created by
// NewUpstreamTLS the last record and the close_notify alert leave in one TCP segment (what a server that answers and
// closes at once produces), so that the peer's tls.Conn returns the bytes together with io.EOF from one Read.
func (u *UpConn) WriteLastAndCloseWrite(b []byte) error {
	if u.hold != nil {
		u.hold.Hold()
	}
	_, err := u.Conn.Write(b)
	if cw, ok := u.Conn.(interface{ CloseWrite() error }); ok {
		if e := cw.CloseWrite(); err == nil {
			err = e
		}
	}
	if u.hold != nil {
		if e := u.hold.Flush(); err == nil {
			err = e
		}
	}
	return err
}

// ReadOneRecord reads (and records) the first byte of the connection.
func (u *UpConn) ReadOneRecord() {
	one := make([]byte, 1)
	n, _ := u.Conn.Read(one)
	u.mu.Lock()
	u.received = append(u.received, one[:n]...)
	u.mu.Unlock()
}

// ReadAllRecord reads the connection to EOF/error, recording bytes; it returns when reading ended.
func (u *UpConn) ReadAllRecord() {
	buf := make([]byte, 32<<10)
	for {
		n, err := u.Conn.Read(buf)
		u.mu.Lock()
		u.received = append(u.received, buf[:n]...)
		if err != nil {
			if err == io.EOF {
				u.sawEOF = true
			} else {
				u.readErr = err.Error()
			}
			u.eofAt = vnet.Now()
			u.mu.Unlock()
			return
		}
		u.mu.Unlock()
	}
}

// Upstream is a harness-owned server (TCP, unix or TLS) that the proxy handler dials.
type Upstream struct {
	L       net.Listener
	Network string
	Addr    string // dial address in Caddy syntax, e.g. "tcp/127.0.0.1:1234" or "unix//path"
	Handler func(*UpConn)

	tlsCfg *tls.Config // NewUpstreamTLS: handshake done here, over a HoldWriter

	mu    sync.Mutex
	conns []*UpConn
	n     atomic.Int64
	open  atomic.Int64
}

// NewUpstream starts a server. network is "tcp", "unix" (path under dir) or "tls" (TCP with cert).
func NewUpstream(network, dir string, cert *tls.Certificate, handler func(*UpConn)) (*Upstream, error) {
	up := &Upstream{Network: network, Handler: handler}
	var err error
	switch network {
	case "unix":
		path := fmt.Sprintf("%s/%s-%d.sock", dir, vnet.UniqueName("up"), os.Getpid())
		_ = os.Remove(path)
		up.L, err = net.Listen("unix", path)
		up.Addr = "unix/" + path
	case "tls":
		var l net.Listener
		l, err = net.Listen("tcp", "127.0.0.1:0")
		if err == nil {
			up.L = tls.NewListener(l, &tls.Config{Certificates: []tls.Certificate{*cert}})
			up.Addr = "tcp/" + l.Addr().String()
		}
	default:
		up.L, err = net.Listen("tcp", "127.0.0.1:0")
		if err == nil {
			up.Addr = "tcp/" + up.L.Addr().String()
		}
	}
	if err != nil {
		return nil, err
	}
	go up.serve()
	return up, nil
}

func (up *Upstream) serve() {
	for {
		c, err := up.L.Accept()
		if err != nil {
			return
		}
		uc := &UpConn{N: int(up.n.Add(1)), Conn: c, Start: vnet.Now(), done: make(chan struct{})}
		if up.tlsCfg != nil {
			uc.hold = &HoldWriter{Conn: c}
			uc.Conn = tls.Server(uc.hold, up.tlsCfg)
			c = uc.Conn
		}
		if c.RemoteAddr() != nil {
			uc.Remote = c.RemoteAddr().String()
		}
		up.mu.Lock()
		up.conns = append(up.conns, uc)
		up.mu.Unlock()
		up.open.Add(1)
		go func() {
			defer close(uc.done)
			defer up.open.Add(-1)
			if tc, ok := c.(*tls.Conn); ok {
				// handshake now: a handler that half-closes before any I/O needs an established session
				_ = tc.SetDeadline(time.Now().Add(30 * time.Second))
				if err := tc.Handshake(); err != nil {
					_ = c.Close()
					return
				}
				_ = tc.SetDeadline(time.Time{})
			}
			up.Handler(uc)
		}()
	}
}

// Conns returns the connections accepted so far.
func (up *Upstream) Conns() []*UpConn {
	up.mu.Lock()
	defer up.mu.Unlock()
	return append([]*UpConn(nil), up.conns...)
}

// Open is the number of connections whose handler has not returned yet.
func (up *Upstream) Open() int64 { return up.open.Load() }

// Count is the number of connections accepted so far.
func (up *Upstream) Count() int64 { return up.n.Load() }

// Close stops accepting.
func (up *Upstream) Close() { _ = up.L.Close() }

// HostPort returns the address without the network prefix.
func (up *Upstream) HostPort() string {
	if tl, ok := up.L.Addr().(*net.TCPAddr); ok {
		return tl.String()
	}
	return up.L.Addr().String()
}

// EchoHandler copies everything back and half-closes when the peer does.
func EchoHandler(uc *UpConn) {
	defer uc.Conn.Close()
	buf := make([]byte, 16<<10)
	for {
		n, err := uc.Conn.Read(buf)
		if n > 0 {
			uc.mu.Lock()
			uc.received = append(uc.received, buf[:n]...)
			uc.mu.Unlock()
			if _, werr := uc.Conn.Write(buf[:n]); werr != nil {
				return
			}
		}
		if err != nil {
			uc.mu.Lock()
			uc.sawEOF = err == io.EOF
			uc.eofAt = vnet.Now()
			uc.mu.Unlock()
			if cw, ok := uc.Conn.(interface{ CloseWrite() error }); ok {
				_ = cw.CloseWrite()
			}
			return
		}
	}
}

// NewUpstreamTLS starts a TLS server limited to maxVersion (0 = no limit) whose connections can send their last record
// together with the close_notify (see WriteLastAndCloseWrite).
func NewUpstreamTLS(cert *tls.Certificate, maxVersion uint16, handler func(*UpConn)) (*Upstream, error) {
	l, err := net.Listen("tcp", "127.0.0.1:0")
	if err != nil {
		return nil, err
	}
	up := &Upstream{Network: "tls", Handler: handler, L: l, Addr: "tcp/" + l.Addr().String()}
	up.tlsCfg = &tls.Config{Certificates: []tls.Certificate{*cert}, MaxVersion: maxVersion}
	go up.serve()
	return up, nil
}

// NewUpstreamOn serves an existing TCP listener.
func NewUpstreamOn(l net.Listener, handler func(*UpConn)) *Upstream {
	up := &Upstream{Network: "tcp", Handler: handler, L: l, Addr: "tcp/" + l.Addr().String()}
	go up.serve()
	return up
}

// ReservedPort is a loopback TCP port that refuses connections: a socket is bound to it but does not listen, so the
// kernel cannot hand the port to another listener or outgoing connection of this process in the meantime.
type ReservedPort struct {
	HostPort string
	mu       sync.Mutex
	fd       int
}

// ReservePort picks a free loopback port and reserves it.
func ReservePort() (*ReservedPort, error) {
	for try := 0; try < 20; try++ {
		l, err := net.Listen("tcp", "127.0.0.1:0")
		if err != nil {
			return nil, err
		}
		ta := l.Addr().(*net.TCPAddr)
		_ = l.Close()
		fd, err := syscall.Socket(syscall.AF_INET, syscall.SOCK_STREAM, 0)
		if err != nil {
			return nil, err
		}
		_ = syscall.SetsockoptInt(fd, syscall.SOL_SOCKET, syscall.SO_REUSEADDR, 1)
		sa := &syscall.SockaddrInet4{Port: ta.Port}
		copy(sa.Addr[:], ta.IP.To4())
		if err := syscall.Bind(fd, sa); err == nil {
			return &ReservedPort{HostPort: ta.String(), fd: fd}, nil
		}
		_ = syscall.Close(fd)
	}
	return nil, fmt.Errorf("cannot reserve a port")
}

// Release gives the port back.
func (r *ReservedPort) Release() {
	r.mu.Lock()
	defer r.mu.Unlock()
	if r.fd != 0 {
		_ = syscall.Close(r.fd)
		r.fd = 0
	}
}

// Listen releases the reservation and starts listening on the port.
func (r *ReservedPort) Listen() (net.Listener, error) {
	r.Release()
	var l net.Listener
	var err error
	for i := 0; i < 50; i++ {
		if l, err = net.Listen("tcp", r.HostPort); err == nil {
			return l, nil
		}
		time.Sleep(5 * time.Millisecond)
	}
	return nil, err
}
