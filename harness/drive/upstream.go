package drive

import (
	"crypto/tls"
	"fmt"
	"io"
	"net"
	"os"
	"sync"
	"sync/atomic"
	"time"

	"verifharness/vnet"
)

// UpConn is one connection accepted by a harness upstream server.
type UpConn struct {
	N      int
	Conn   net.Conn
	Remote string
	Start  time.Duration

	mu       sync.Mutex
	received []byte
	sawEOF   bool
	eofAt    time.Duration
	readErr  string
	done     chan struct{}
}

// Received returns a copy of the bytes read so far.
func (u *UpConn) Received() []byte {
	u.mu.Lock()
	defer u.mu.Unlock()
	return append([]byte(nil), u.received...)
}

// SawEOF reports whether the upstream observed a clean end-of-stream from the proxy.
func (u *UpConn) SawEOF() (bool, time.Duration, string) {
	u.mu.Lock()
	defer u.mu.Unlock()
	return u.sawEOF, u.eofAt, u.readErr
}

// Done is closed when the upstream's handler for this connection returned.
func (u *UpConn) Done() <-chan struct{} { return u.done }

// ReadAllRecord reads the connection to EOF/error, recording bytes; it returns when reading ended.
func (u *UpConn) ReadAllRecord() {
	buf := make([]byte, 32<<10)
	for {
		n, err := u.Conn.Read(buf)
		u.mu.Lock()
		u.received = append(u.received, buf[:n]...)
		if err != nil {
			if err == io.EOF {
				u.sawEOF = true
			} else {
				u.readErr = err.Error()
			}
			u.eofAt = vnet.Now()
			u.mu.Unlock()
			return
		}
		u.mu.Unlock()
	}
}

// Upstream is a harness-owned server (TCP, unix or TLS) that the proxy handler dials.
type Upstream struct {
	L       net.Listener
	Network string
	Addr    string // dial address in Caddy syntax, e.g. "tcp/127.0.0.1:1234" or "unix//path"
	Handler func(*UpConn)

	mu    sync.Mutex
	conns []*UpConn
	n     atomic.Int64
	open  atomic.Int64
}

// NewUpstream starts a server. network is "tcp", "unix" (path under dir) or "tls" (TCP with cert).
func NewUpstream(network, dir string, cert *tls.Certificate, handler func(*UpConn)) (*Upstream, error) {
	up := &Upstream{Network: network, Handler: handler}
	var err error
	switch network {
	case "unix":
		path := fmt.Sprintf("%s/%s-%d.sock", dir, vnet.UniqueName("up"), os.Getpid())
		_ = os.Remove(path)
		up.L, err = net.Listen("unix", path)
		up.Addr = "unix/" + path
	case "tls":
		var l net.Listener
		l, err = net.Listen("tcp", "127.0.0.1:0")
		if err == nil {
			up.L = tls.NewListener(l, &tls.Config{Certificates: []tls.Certificate{*cert}})
			up.Addr = "tcp/" + l.Addr().String()
		}
	default:
		up.L, err = net.Listen("tcp", "127.0.0.1:0")
		if err == nil {
			up.Addr = "tcp/" + up.L.Addr().String()
		}
	}
	if err != nil {
		return nil, err
	}
	go up.serve()
	return up, nil
}

func (up *Upstream) serve() {
	for {
		c, err := up.L.Accept()
		if err != nil {
			return
		}
		uc := &UpConn{N: int(up.n.Add(1)), Conn: c, Start: vnet.Now(), done: make(chan struct{})}
		if c.RemoteAddr() != nil {
			uc.Remote = c.RemoteAddr().String()
		}
		up.mu.Lock()
		up.conns = append(up.conns, uc)
		up.mu.Unlock()
		up.open.Add(1)
		go func() {
			defer close(uc.done)
			defer up.open.Add(-1)
			if tc, ok := c.(*tls.Conn); ok {
				// handshake now: a handler that half-closes before any I/O needs an established session
				_ = tc.SetDeadline(time.Now().Add(30 * time.Second))
				if err := tc.Handshake(); err != nil {
					_ = c.Close()
					return
				}
				_ = tc.SetDeadline(time.Time{})
			}
			up.Handler(uc)
		}()
	}
}

// Conns returns the connections accepted so far.
func (up *Upstream) Conns() []*UpConn {
	up.mu.Lock()
	defer up.mu.Unlock()
	return append([]*UpConn(nil), up.conns...)
}

// Open is the number of connections whose handler has not returned yet.
func (up *Upstream) Open() int64 { return up.open.Load() }

// Count is the number of connections accepted so far.
func (up *Upstream) Count() int64 { return up.n.Load() }

// Close stops accepting.
func (up *Upstream) Close() { _ = up.L.Close() }

// HostPort returns the address without the network prefix.
func (up *Upstream) HostPort() string {
	if tl, ok := up.L.Addr().(*net.TCPAddr); ok {
		return tl.String()
	}
	return up.L.Addr().String()
}

// EchoHandler copies everything back and half-closes when the peer does.
func EchoHandler(uc *UpConn) {
	defer uc.Conn.Close()
	buf := make([]byte, 16<<10)
	for {
		n, err := uc.Conn.Read(buf)
		if n > 0 {
			uc.mu.Lock()
			uc.received = append(uc.received, buf[:n]...)
			uc.mu.Unlock()
			if _, werr := uc.Conn.Write(buf[:n]); werr != nil {
				return
			}
		}
		if err != nil {
			uc.mu.Lock()
			uc.sawEOF = err == io.EOF
			uc.eofAt = vnet.Now()
			uc.mu.Unlock()
			if cw, ok := uc.Conn.(interface{ CloseWrite() error }); ok {
				_ = cw.CloseWrite()
			}
			return
		}
	}
}
