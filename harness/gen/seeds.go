// Package gen builds well-formed first messages for every shipped matcher
// (hand-written from the wire definitions) and boundary-aware mutations of them.
package gen

import (
	"crypto/tls"
	"encoding/binary"
	"fmt"
	"math/rand"
	"net"
	"time"
)

// Target is one matcher in one configuration together with valid first messages.
type Target struct {
	Matcher string // module name under layer4.matchers.
	Config  string // JSON configuration
	UDP     bool   // evaluate with UDP-like addresses
	Stream  bool   // stream-oriented (fragmentation rules apply) vs datagram-oriented
	Label   string
	Seeds   [][]byte // complete first messages the matcher is expected to accept in this configuration
	Slow    bool     // each evaluation may take ~100 ms (quic)
}

func be16(v int) []byte { return []byte{byte(v >> 8), byte(v)} }
func be32(v uint32) []byte {
	b := make([]byte, 4)
	binary.BigEndian.PutUint32(b, v)
	return b
}

// PostgresStartup builds a v3.0 StartupMessage.
func PostgresStartup(params ...string) []byte {
	body := be32(196608)
	for _, p := range params {
		body = append(body, p...)
		body = append(body, 0)
	}
	body = append(body, 0)
	return append(be32(uint32(len(body)+4)), body...)
}

// RDPConnReq builds TPKT + X.224 CR + payload.
func RDPConnReq(payload []byte) []byte {
	total := 4 + 7 + len(payload)
	out := []byte{3, 0, byte(total >> 8), byte(total)}
	out = append(out, byte(total-5), 0xE0, 0, 0, 0, 0, 0)
	return append(out, payload...)
}

// DNSQuery builds a one-question query without compression.
func DNSQuery(id uint16, name string, qtype, qclass uint16) []byte {
	out := []byte{byte(id >> 8), byte(id), 0x01, 0x00, 0, 1, 0, 0, 0, 0, 0, 0}
	start := 0
	for i := 0; i <= len(name); i++ {
		if i == len(name) || name[i] == '.' {
			if i > start {
				out = append(out, byte(i-start))
				out = append(out, name[start:i]...)
			}
			start = i + 1
		}
	}
	out = append(out, 0)
	out = append(out, byte(qtype>>8), byte(qtype), byte(qclass>>8), byte(qclass))
	return out
}

// WinboxAuth builds a Winbox auth message (chunked).
func WinboxAuth(user string, parity byte) []byte {
	payload := append([]byte(user), 0)
	key := make([]byte, 32)
	for i := range key {
		key[i] = byte(i*7 + 1)
	}
	payload = append(payload, key...)
	payload = append(payload, parity)
	var out []byte
	for i := 0; i < len(payload); i += 255 {
		n := len(payload) - i
		if n > 255 {
			n = 255
		}
		typ := byte(0xFF)
		if i == 0 {
			typ = 0x06
		}
		out = append(out, byte(n), typ)
		out = append(out, payload[i:i+n]...)
	}
	return out
}

// OpenVPNPlain builds a plain-mode hard reset (client v2), headless (no length prefix).
func OpenVPNPlain() []byte {
	out := []byte{7 << 3}
	out = append(out, 0x11, 0x22, 0x33, 0x44, 0x55, 0x66, 0x77, 0x88) // session id
	out = append(out, 0)                                              // ack count
	out = append(out, 0, 0, 0, 0)                                     // packet id
	return out
}

// ClientHello captures the first flight of a crypto/tls client.
func ClientHello(serverName string, alpn []string) []byte {
	c1, c2 := net.Pipe()
	defer c1.Close()
	defer c2.Close()
	done := make(chan []byte, 1)
	go func() {
		buf := make([]byte, 16384)
		_ = c2.SetReadDeadline(time.Now().Add(5 * time.Second))
		var got []byte
		for {
			n, err := c2.Read(buf)
			got = append(got, buf[:n]...)
			if len(got) >= 5 {
				need := 5 + int(got[3])<<8 | int(got[4])
				need = 5 + (int(got[3])<<8 | int(got[4]))
				if len(got) >= need {
					done <- got[:need]
					return
				}
			}
			if err != nil {
				done <- got
				return
			}
		}
	}()
	cl := tls.Client(c1, &tls.Config{ServerName: serverName, NextProtos: alpn, InsecureSkipVerify: true})
	go func() { _ = cl.Handshake() }()
	rec := <-done
	return rec
}

// Targets returns every shipped matcher in default and filtered configurations with valid seeds.
func Targets() []*Target {
	v1 := []byte("PROXY TCP4 192.168.0.1 192.168.0.11 56324 443\r\n")
	v2 := []byte{0x0D, 0x0A, 0x0D, 0x0A, 0x00, 0x0D, 0x0A, 0x51, 0x55, 0x49, 0x54, 0x0A, 0x21, 0x11, 0x00, 0x0C, 10, 0, 0, 1, 10, 0, 0, 2, 0x1f, 0x90, 0x01, 0xbb}
	http1 := []byte("GET /index.html?a=b HTTP/1.1\r\nHost: example.com\r\nUser-Agent: verif\r\nAccept: */*\r\n\r\n")
	http1lf := []byte("POST /x HTTP/1.0\nHost: example.com\n\n")
	xmpp := []byte("<?xml version='1.0'?><stream:stream to='example.com' xmlns='jabber:client' xmlns:stream='http://etherx.jabber.org/streams' version='1.0'>")
	rdpCookie := RDPConnReq(append([]byte("Cookie: mstshash=user1\r\n"), 0x01, 0x00, 0x08, 0x00, 0x03, 0x00, 0x00, 0x00))
	rdpCustom := RDPConnReq([]byte("anything goes here\r\n"))
	rdpNeg := RDPConnReq([]byte{0x01, 0x00, 0x08, 0x00, 0x01, 0x00, 0x00, 0x00})
	dnsQ := DNSQuery(0x1234, "example.com", 1, 1)
	dnsTCP := append(be16(len(dnsQ)), dnsQ...)
	wgInit := make([]byte, 148)
	wgInit[0] = 1
	for i := 4; i < 148; i++ {
		wgInit[i] = byte(i * 3)
	}
	ovpn := OpenVPNPlain()
	ovpnTCP := append(be16(len(ovpn)), ovpn...)
	hello := ClientHello("example.com", []string{"h2", "http/1.1"})
	helloNoSNI := ClientHello("", nil)
	return []*Target{
		{Matcher: "ssh", Config: `{}`, Stream: true, Seeds: [][]byte{[]byte("SSH-2.0-OpenSSH_9.6\r\n"), []byte("SSH-1.99-x\r\n")}},
		{Matcher: "xmpp", Config: `{}`, Stream: true, Seeds: [][]byte{xmpp}},
		{Matcher: "postgres", Config: `{}`, Stream: true, Seeds: [][]byte{PostgresStartup("user", "alice", "database", "db1"), append(be32(8), be32(80877103)...), PostgresStartup("user", "u")}},
		{Matcher: "proxy_protocol", Config: `{}`, Stream: true, Seeds: [][]byte{v1, v2}},
		{Matcher: "socks4", Config: `{}`, Stream: true, Seeds: [][]byte{{4, 1, 0, 80, 127, 0, 0, 1, 'u', 0}, {4, 2, 0x1f, 0x90, 10, 1, 2, 3, 0}}},
		{Matcher: "socks4", Label: "filtered", Config: `{"commands":["CONNECT"],"networks":["10.0.0.0/8","127.0.0.1/32"],"ports":[80,443]}`, Stream: true, Seeds: [][]byte{{4, 1, 0, 80, 127, 0, 0, 1, 'u', 0}, {4, 1, 1, 0xbb, 10, 9, 8, 7, 0}}},
		{Matcher: "socks5", Config: `{}`, Stream: true, Seeds: [][]byte{{5, 1, 0}, {5, 3, 0, 1, 2}}},
		{Matcher: "socks5", Label: "filtered", Config: `{"auth_methods":[0,2]}`, Stream: true, Seeds: [][]byte{{5, 2, 0, 2}}},
		{Matcher: "regexp", Config: `{"pattern":"^GET ","count":4}`, Stream: true, Seeds: [][]byte{[]byte("GET / HTTP/1.1\r\n\r\n")}},
		{Matcher: "regexp", Label: "long", Config: `{"pattern":"[a-z]+[0-9]{3}","count":40}`, Stream: true, Seeds: [][]byte{[]byte("....................abc123..............tail")}},
		{Matcher: "http", Config: `[]`, Stream: true, Seeds: [][]byte{http1, http1lf}},
		{Matcher: "http", Label: "host", Config: `[{"host":["example.com"]}]`, Stream: true, Seeds: [][]byte{http1}},
		{Matcher: "http", Label: "path+method", Config: `[{"path":["/index.html"],"method":["GET"]}]`, Stream: true, Seeds: [][]byte{http1}},
		{Matcher: "tls", Config: `{}`, Stream: true, Seeds: [][]byte{hello, helloNoSNI}},
		{Matcher: "tls", Label: "sni", Config: `{"sni":["example.com"]}`, Stream: true, Seeds: [][]byte{hello}},
		{Matcher: "tls", Label: "alpn", Config: `{"alpn":["h2"]}`, Stream: true, Seeds: [][]byte{hello}},
		{Matcher: "rdp", Config: `{}`, Stream: true, Seeds: [][]byte{rdpCookie, rdpCustom, rdpNeg}},
		{Matcher: "rdp", Label: "cookie", Config: `{"cookie_hash":"user1"}`, Stream: true, Seeds: [][]byte{rdpCookie}},
		{Matcher: "rdp", Label: "empty-placeholders", Config: `{"cookie_hash":"{env.VERIF_NOT_SET}","cookie_hash_regexp":"{env.VERIF_NOT_SET}"}`, Stream: true, Seeds: [][]byte{rdpCookie}},
		{Matcher: "rdp", Label: "custom", Config: `{"custom_info_regexp":"^any"}`, Stream: true, Seeds: [][]byte{rdpCustom}},
		{Matcher: "dns", Label: "tcp", Config: `{}`, Stream: true, Seeds: [][]byte{dnsTCP}},
		{Matcher: "dns", Label: "tcp-allow", Config: `{"allow":[{"name":"example.com.","type":"A"}],"default_deny":true}`, Stream: true, Seeds: [][]byte{dnsTCP}},
		{Matcher: "dns", Label: "udp", Config: `{}`, UDP: true, Seeds: [][]byte{dnsQ}},
		// options given as placeholders that resolve to nothing (an environment variable that is not set)
		{Matcher: "dns", Label: "tcp-empty-placeholders", Config: `{"allow":[{"name_regexp":"{env.VERIF_NOT_SET}","type_regexp":"{env.VERIF_NOT_SET}","class_regexp":"{env.VERIF_NOT_SET}"}]}`, Stream: true, Seeds: [][]byte{dnsTCP}},
		{Matcher: "dns", Label: "udp-empty-placeholders", Config: `{"deny":[{"name_regexp":"{env.VERIF_NOT_SET}"}],"allow":[{"class":"{env.VERIF_NOT_SET}","type_regexp":"{env.VERIF_NOT_SET}"}]}`, UDP: true, Seeds: [][]byte{dnsQ}},
		{Matcher: "dns", Label: "udp-deny", Config: `{"deny":[{"name_regexp":"^evil\\."}],"prefer_allow":true}`, UDP: true, Seeds: [][]byte{dnsQ}},
		{Matcher: "openvpn", Label: "tcp", Config: `{}`, Stream: true, Seeds: [][]byte{ovpnTCP}},
		{Matcher: "openvpn", Label: "tcp-plain", Config: `{"modes":["plain"]}`, Stream: true, Seeds: [][]byte{ovpnTCP}},
		{Matcher: "openvpn", Label: "udp", Config: `{}`, UDP: true, Seeds: [][]byte{ovpn}},
		{Matcher: "openvpn", Label: "udp-all-ignore", Config: `{"modes":["plain","auth","crypt","crypt2"],"ignore_crypto":true,"ignore_timestamp":true}`, UDP: true, Seeds: [][]byte{ovpn}},
		{Matcher: "wireguard", Config: `{}`, UDP: true, Seeds: [][]byte{wgInit}},
		{Matcher: "winbox", Config: `{}`, Stream: true, Seeds: [][]byte{WinboxAuth("admin", 0), WinboxAuth("some.user+r", 1), WinboxAuth(longName(230), 1)}},
		{Matcher: "winbox", Label: "empty-placeholders", Config: `{"username":"{env.VERIF_NOT_SET}","username_regexp":"{env.VERIF_NOT_SET}"}`, Stream: true, Seeds: [][]byte{WinboxAuth("admin", 0)}},
		{Matcher: "winbox", Label: "filtered", Config: `{"modes":["standard"],"username":"admin"}`, Stream: true, Seeds: [][]byte{WinboxAuth("admin", 1)}},
		{Matcher: "quic", Config: `{}`, UDP: true, Slow: true, Seeds: nil},
		{Matcher: "clock", Config: `{"after":"00:00:00","before":"23:59:59"}`, Stream: true, Seeds: [][]byte{[]byte("x")}},
		{Matcher: "remote_ip", Config: `{"ranges":["198.51.100.0/24"]}`, Stream: true, Seeds: [][]byte{[]byte("x")}},
		{Matcher: "local_ip", Config: `{"ranges":["192.0.2.0/24","2001:db8::/32"]}`, Stream: true, Seeds: [][]byte{[]byte("x")}},
		{Matcher: "not", Config: `[{"ssh":{}}]`, Stream: true, Seeds: [][]byte{[]byte("GET / HTTP/1.1\r\n")}},
		{Matcher: "not", Label: "nested", Config: `[{"not":[{"postgres":{}}],"ssh":{}}]`, Stream: true, Seeds: [][]byte{[]byte("GET / HTTP/1.1\r\n")}},
	}
}

func longName(n int) string {
	b := make([]byte, n)
	for i := range b {
		b[i] = 'a' + byte(i%26)
	}
	return string(b)
}

// Name returns matcher[/label].
func (t *Target) Name() string {
	if t.Label != "" {
		return t.Matcher + "/" + t.Label
	}
	return t.Matcher
}

var boundary16 = []uint16{0, 1, 2, 3, 4, 5, 7, 8, 11, 12, 13, 14, 0x7f, 0x80, 0xff, 0x100, 0x101, 0x1ff, 0x200, 0x7ff, 0x800, 0x1fff, 0x2000, 0x2001, 0x3fff, 0x7fff, 0x8000, 0xfffe, 0xffff}
var boundary32 = []uint32{0, 1, 2, 3, 4, 5, 6, 7, 8, 9, 0xff, 0x100, 0xffff, 0x10000, 0xffffff, 0x7fffffff, 0x80000000, 0xfffffffe, 0xffffffff, 196608, 80877103, 0x47455420}
var boundary8 = []byte{0, 1, 2, 0x0a, 0x0d, 0x20, 0x7f, 0x80, 0xfe, 0xff}

// Mutate returns the i-th deterministic mutation of seed (structure-unaware but
// boundary-aware: length-like fields at every offset get every boundary value,
// truncation at every offset, terminator removal, CR/LF at the end, growth).
func Mutate(seed []byte, r *rand.Rand) []byte {
	b := append([]byte(nil), seed...)
	n := len(b)
	switch k := r.Intn(14); {
	case k == 0 && n > 0: // truncate
		return b[:r.Intn(n)]
	case k == 1 && n > 0: // byte -> boundary
		b[r.Intn(n)] = boundary8[r.Intn(len(boundary8))]
	case k == 2 && n >= 2: // 16-bit BE
		o := r.Intn(n - 1)
		binary.BigEndian.PutUint16(b[o:], boundary16[r.Intn(len(boundary16))])
	case k == 3 && n >= 2: // 16-bit LE
		o := r.Intn(n - 1)
		binary.LittleEndian.PutUint16(b[o:], boundary16[r.Intn(len(boundary16))])
	case k == 4 && n >= 4: // 32-bit BE
		o := r.Intn(n - 3)
		binary.BigEndian.PutUint32(b[o:], boundary32[r.Intn(len(boundary32))])
	case k == 5 && n >= 4: // 32-bit LE
		o := r.Intn(n - 3)
		binary.LittleEndian.PutUint32(b[o:], boundary32[r.Intn(len(boundary32))])
	case k == 6: // append boundary byte(s)
		for j := 1 + r.Intn(3); j > 0; j-- {
			b = append(b, boundary8[r.Intn(len(boundary8))])
		}
	case k == 7 && n > 0: // remove a terminator-like byte
		for tries := 0; tries < 8; tries++ {
			o := r.Intn(n)
			if b[o] == 0 || b[o] == '\n' || b[o] == '\r' {
				return append(b[:o], b[o+1:]...)
			}
		}
		return append(b[:n-1:n-1], boundary8[r.Intn(len(boundary8))])
	case k == 8 && n > 0: // length-consistent shrink: set a 16-bit BE field to the remaining length minus d
		if n >= 2 {
			o := r.Intn(n - 1)
			binary.BigEndian.PutUint16(b[o:], uint16(n-o-2+r.Intn(5)-2))
		}
	case k == 9: // grow: repeat the seed up to a size class
		target := []int{255, 256, 257, 258, 514, 1024, 2047, 2048, 2049, 4096, 8191, 8192, 9000}[r.Intn(13)]
		for len(b) < target && len(seed) > 0 {
			b = append(b, seed...)
		}
		if len(b) > target {
			b = b[:target]
		}
	case k == 10 && n > 0: // random byte
		b[r.Intn(n)] = byte(r.Intn(256))
	case k == 11 && n > 1: // two mutations
		return Mutate(Mutate(b, r), r)
	case k == 12 && n > 0: // truncate then pad with 0xFF / 0x00
		cut := r.Intn(n)
		pad := byte(0xff)
		if r.Intn(2) == 0 {
			pad = 0
		}
		for i := cut; i < n; i++ {
			b[i] = pad
		}
	default:
		if n > 0 {
			o := r.Intn(n)
			b[o] ^= 1 << uint(r.Intn(8))
		}
	}
	return b
}

// RandomInput returns uniform random bytes of a boundary length.
func RandomInput(r *rand.Rand) []byte {
	lens := []int{0, 1, 2, 3, 4, 5, 7, 8, 11, 12, 13, 14, 16, 31, 32, 33, 50, 64, 92, 147, 148, 149, 255, 256, 257, 258, 512, 514, 1200, 2047, 2048, 2049, 4096, 8192, 9000}
	n := lens[r.Intn(len(lens))]
	b := make([]byte, n)
	r.Read(b)
	// bias the first bytes towards protocol magic so that parsers get past their first check
	if n > 0 && r.Intn(2) == 0 {
		magic := [][]byte{{0x16, 3, 1}, {3, 0}, {4, 1}, {5, 1}, {0x38}, {0x50}, {1, 0, 0, 0}, {4, 0, 0, 0}, []byte("GET "), []byte("SSH-"), []byte("PROXY "), {0xff, 0x06}, {0x22, 0x06}, {0xc0, 0, 0, 0, 1}, {0, 0, 0, 8}, {0, 0}}
		m := magic[r.Intn(len(magic))]
		copy(b, m)
	}
	return b
}

var _ = fmt.Sprintf
