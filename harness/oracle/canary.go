package oracle

import (
	"bytes"
	"runtime"
	"strings"
	"sync/atomic"
	"time"
)

// Canary measures scheduler latency: a goroutine sleeps 2 ms in a loop and
// records its maximum oversleep. Two-sided timing assertions are evaluated
// only when the canary stayed quiet during the case.
type Canary struct {
	max  atomic.Int64
	stop chan struct{}
}

func StartCanary() *Canary {
	c := &Canary{stop: make(chan struct{})}
	go func() {
		for {
			select {
			case <-c.stop:
				return
			default:
			}
			t0 := time.Now()
			time.Sleep(2 * time.Millisecond)
			over := time.Since(t0) - 2*time.Millisecond
			for {
				old := c.max.Load()
				if int64(over) <= old || c.max.CompareAndSwap(old, int64(over)) {
					break
				}
			}
		}
	}()
	return c
}

// MaxOversleep returns the worst oversleep seen so far.
func (c *Canary) MaxOversleep() time.Duration { return time.Duration(c.max.Load()) }

// Reset clears the maximum.
func (c *Canary) Reset() { c.max.Store(0) }

func (c *Canary) Stop() { close(c.stop) }

// GoroutinesIn counts goroutines whose stack contains the given substring.
func GoroutinesIn(substr string) (int, string) {
	buf := make([]byte, 1<<20)
	for {
		n := runtime.Stack(buf, true)
		if n < len(buf) {
			buf = buf[:n]
			break
		}
		buf = make([]byte, 2*len(buf))
	}
	count := 0
	var first string
	for _, g := range bytes.Split(buf, []byte("\n\n")) {
		if strings.Contains(string(g), substr) {
			count++
			if first == "" {
				first = string(g)
				if len(first) > 1500 {
					first = first[:1500]
				}
			}
		}
	}
	return count, first
}

// WaitGoroutinesGone waits until no goroutine has substr in its stack.
func WaitGoroutinesGone(substr string, d time.Duration) (int, string) {
	deadline := time.Now().Add(d)
	for {
		n, first := GoroutinesIn(substr)
		if n == 0 || time.Now().After(deadline) {
			return n, first
		}
		time.Sleep(5 * time.Millisecond)
	}
}
