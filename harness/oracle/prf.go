// Package oracle holds the deterministic content generator and the generic
// checkers (stream comparison, goroutine census, scheduler canary).
package oracle

import (
	"bytes"
	"fmt"
)

func splitmix(z uint64) uint64 {
	z += 0x9E3779B97F4A7C15
	z = (z ^ (z >> 30)) * 0xBF58476D1CE4E5B9
	z = (z ^ (z >> 27)) * 0x94D049BB133111EB
	return z ^ (z >> 31)
}

// Stream returns n bytes of content that is a pure function of (domain, id):
// any 8-byte aligned window identifies its stream and offset.
func Stream(domain, id uint64, n int) []byte {
	out := make([]byte, n)
	key := splitmix(domain*0x100000001B3 ^ splitmix(id))
	for off := 0; off < n; off += 8 {
		v := splitmix(key + uint64(off/8)*0xD1342543DE82EF95)
		for k := 0; k < 8 && off+k < n; k++ {
			out[off+k] = byte(v >> (8 * k))
		}
	}
	return out
}

// Diff describes the first difference between got and want ("" if equal).
func Diff(got, want []byte) string {
	if bytes.Equal(got, want) {
		return ""
	}
	n := len(got)
	if len(want) < n {
		n = len(want)
	}
	i := 0
	for i < n && got[i] == want[i] {
		i++
	}
	kind := "altered"
	switch {
	case i == n && len(got) < len(want):
		kind = "lost-tail"
	case i == n && len(got) > len(want):
		kind = "extra-tail"
	default:
		// classify: does got continue with an earlier / later part of want?
		w := 8
		if i+w <= len(got) {
			if k := bytes.Index(want, got[i:i+w]); k >= 0 {
				if k < i {
					kind = "duplicated-or-rewound"
				} else {
					kind = "lost-or-skipped"
				}
			}
		}
	}
	return fmt.Sprintf("%s at offset %d (got %d bytes, want %d): got[%d:]=%x want[%d:]=%x", kind, i, len(got), len(want), i, clip(got, i, 12), i, clip(want, i, 12))
}

// DiffKind returns just the classification word of Diff.
func DiffKind(got, want []byte) string {
	d := Diff(got, want)
	for i := 0; i < len(d); i++ {
		if d[i] == ' ' {
			return d[:i]
		}
	}
	return d
}

func clip(b []byte, i, n int) []byte {
	if i >= len(b) {
		return nil
	}
	if i+n > len(b) {
		n = len(b) - i
	}
	return b[i : i+n]
}
