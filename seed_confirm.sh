#!/bin/bash
# seed_confirm.sh <ID> <src dir with patch.diff, demo_test.go.txt, meta.json> <name>
# Confirms a seeded change in a scratch worktree (demo passes without, fails with; existing suite passes with),
# stores it under /verif/seeded/<name>/ and runs the property's quick check against it in /repo (always reverted).
ID="$1"; SRC="$2"; NAME="$3"
export GOFLAGS=-mod=readonly GOPROXY=off GOSUMDB=off GOTOOLCHAIN=local
WT=/tmp/wt/confirm-$NAME
git -C /repo worktree remove --force $WT >/dev/null 2>&1; rm -rf $WT
git -C /repo worktree add -q --detach $WT HEAD || exit 2
PLACE=$(python3 -c "import json;print(json.load(open('$SRC/meta.json'))['demo']['place_at'])")
RUN=$(python3 -c "import json,re;print(re.sub(r'^cd /tmp/wt/\S+ && ','',json.load(open('$SRC/meta.json'))['demo']['run']))")
cp "$SRC/demo_test.go.txt" "$WT/$PLACE"
cd $WT
echo "--- demo on unmodified tree: $RUN"
( eval "$RUN" ) > /tmp/wt/confirm-$NAME.without.log 2>&1; W=$?
tail -3 /tmp/wt/confirm-$NAME.without.log
git apply "$SRC/patch.diff" || { echo "PATCH DOES NOT APPLY"; exit 2; }
echo "--- demo with change"
( eval "$RUN" ) > /tmp/wt/confirm-$NAME.with.log 2>&1; X=$?
tail -5 /tmp/wt/confirm-$NAME.with.log
rm -f "$WT/$PLACE"
echo "--- existing suite with change"
go build ./... && go build -tags verif ./... && go test -vet=off -count=1 ./... > /tmp/wt/confirm-$NAME.suite.log 2>&1; S=$?
grep -v "no test files" /tmp/wt/confirm-$NAME.suite.log | grep -v "^ok" | head -5
echo "RESULT demo_without_rc=$W demo_with_rc=$X suite_rc=$S"
cd /verif
git -C /repo worktree remove --force $WT
if [ $W -eq 0 ] && [ $X -ne 0 ] && [ $S -eq 0 ]; then
  mkdir -p /verif/seeded/$NAME
  cp "$SRC/patch.diff" "$SRC/meta.json" /verif/seeded/$NAME/
  cp "$SRC/demo_test.go.txt" /verif/seeded/$NAME/demo_test.go.txt
  echo "--- running ./check $ID quick against the change"
  MUT_LINES=${MUT_LINES:-8} ./mut.sh /verif/seeded/$NAME/patch.diff $ID quick | tee /verif/seeded/$NAME/check_quick.txt
else
  echo "NOT CONFIRMED"
fi
