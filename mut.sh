#!/bin/bash
# mut.sh <patch> <ID> [tier]  : self-validation only. Applies a patch to a scratch worktree of /repo (never to /repo
# itself), runs one check against it (VERIF_REPO), and removes the worktree again.
P="$(readlink -f "$1")"; ID="$2"; TIER="${3:-quick}"
WT=/tmp/wt/mut-$$
git -C /repo worktree add -q --detach $WT HEAD || exit 2
trap 'git -C /repo worktree remove --force '$WT' >/dev/null 2>&1' EXIT
( cd $WT && git apply "$P" ) || { echo "patch does not apply"; exit 2; }
cd /verif && VERIF_REPO=$WT ./check "$ID" "$TIER" 2>&1 | grep -E "^(VIOLATION|KNOWN|SUMMARY|MACHINERY)|signature:" | head -${MUT_LINES:-12}
rm -rf /verif/evidence/.work/$ID/run-$TIER-alt-* 2>/dev/null
# ... and so does the binary that was built against the scratch copy
rm -rf "/verif/evidence/.work/_bin/alt-$(echo -n "$WT" | md5sum | cut -c1-12)" 2>/dev/null
# the evidence file now describes the mutant run: restore the committed one
git -C /verif checkout -q -- "evidence/$ID.json" 2>/dev/null
