#!/bin/bash
# mut.sh <patch> <ID> [tier]  : apply a patch to /repo, run one check, always revert. For self-validation only.
P="$(readlink -f "$1")"; ID="$2"; TIER="${3:-quick}"
cd /repo || exit 2
if [ -n "$(git status --porcelain)" ]; then echo "repo not clean"; exit 2; fi
git apply "$P" || { echo "patch does not apply"; exit 2; }
trap 'git -C /repo checkout -- . ; git -C /repo clean -fdq' EXIT
cd /verif && ./check "$ID" "$TIER" 2>&1 | grep -E "^(VIOLATION|KNOWN|SUMMARY|MACHINERY)|signature:" | head -${MUT_LINES:-12}
