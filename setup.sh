#!/bin/bash
# Builds the harness once (plain and -race) so that the go build cache is warm; offline.
export GOFLAGS=-mod=mod GOPROXY=off GOSUMDB=off GOTOOLCHAIN=local
cd "$(dirname "$0")/harness" || exit 1
mkdir -p ../evidence/.work/_bin/repo
go build -tags verif -o ../evidence/.work/_bin/repo/vprops ./cmd/vprops || exit 1
go build -race -tags verif -o ../evidence/.work/_bin/repo/vprops.race ./cmd/vprops || exit 1
echo setup ok
