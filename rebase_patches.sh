#!/bin/bash
# rebase_patches.sh: re-creates the patches under mutants/ and seeded/ that no longer apply to /repo's HEAD (after a
# later fix: commit touched the same lines), using a scratch worktree and patch(1) with fuzz. Never touches /repo.
export GOFLAGS=-mod=readonly GOPROXY=off GOSUMDB=off GOTOOLCHAIN=local
cd "$(dirname "$0")"
WT=/tmp/wt/rebase
git -C /repo worktree remove --force $WT >/dev/null 2>&1; rm -rf $WT
git -C /repo worktree add -q --detach $WT HEAD || exit 2
for p in mutants/*.patch seeded/*/patch.diff; do
  git -C /repo apply --check /verif/$p 2>/dev/null && continue
  ( cd $WT && git checkout -q -- . && git clean -fdq
    patch -p1 --fuzz=3 -s < /verif/$p; rc=$?
    find . -name "*.orig" -delete
    rej=$(find . -name "*.rej" | wc -l); find . -name "*.rej" -delete
    if [ $rc -eq 0 ] && [ $rej -eq 0 ] && go build ./... && go build -tags verif ./...; then
      git diff > /verif/$p && echo "rebased: $p"
    else
      echo "NEEDS MANUAL REBASE: $p"
    fi )
done
git -C /repo worktree remove --force $WT
