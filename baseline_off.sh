#!/bin/bash
# Runs the repository's own test suite with the verif guard OFF (no -tags verif).
export GOPROXY=off GOSUMDB=off GOTOOLCHAIN=local GOFLAGS=-mod=readonly
cd /repo && exec go test -vet=off -count=1 -timeout 25m ./...
