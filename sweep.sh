#!/bin/bash
# sweep.sh <tier> <seed>... : run every registered check at the given seeds; prints one line per run and exits non-zero if any run is not clean.
TIER="$1"; shift
cd "$(dirname "$0")"
bad=0
for seed in "$@"; do
  for id in $(python3 -c "import json;print(' '.join(c['property_id'] for c in json.load(open('MANIFEST.json'))['checks']))"); do
    t0=$(date +%s)
    out=$(VERIF_SEED=$seed ./check $id $TIER 2>&1); rc=$?
    t1=$(date +%s)
    echo "seed=$seed $id rc=$rc $((t1-t0))s $(echo "$out" | grep SUMMARY | sed 's/SUMMARY //')"
    if [ $rc -ne 0 ]; then bad=1; echo "$out" | grep -E "^VIOLATION|signature:|what:|MACHINERY" | head -12; fi
  done
done
exit $bad
