#!/usr/bin/env python3
"""Validate MANIFEST.json and evidence/*.json against the schemas in /root/.vp."""
import json, sys, glob, os
try:
    import jsonschema
except ImportError:
    sys.path.insert(0, '/opt/veriftools/pyvenv/lib/python3.11/site-packages')
    import jsonschema
ok = True
def check(path, schema_path):
    global ok
    try:
        jsonschema.validate(json.load(open(path)), json.load(open(schema_path)))
        print("valid  ", path)
    except Exception as e:
        ok = False
        print("INVALID", path, str(e)[:300])
if os.path.exists('MANIFEST.json'):
    check('MANIFEST.json', '/root/.vp/MANIFEST.schema.json')
for f in sorted(glob.glob('evidence/*.json')):
    check(f, '/root/.vp/EVIDENCE.schema.json')
sys.exit(0 if ok else 1)
