#!/usr/bin/env python3
"""Generates MANIFEST.json from the table below (single source of truth for the registered checks)."""
import json, subprocess
CHECKS = {
 "C01": dict(technique="runtime monitoring: stream oracle with unique PRF content over generated route lists/handler chains/segmentations on the real App; poison-on-release hook; race detector in the thorough tier; TLS <= 1.2 clients whose last record and close_notify leave in one segment; PROXY UNKNOWN prologue",
             text="Held on every generated execution: each consumer's bytes were compared with the exact slice of the client's stream; exploration of configurations x streams x segmentations, not a proof.",
             note="Trusts the scripted transport (vnet) to behave like TCP for Read/deadline/half-close; only shipped wrapping handlers are composed.", ref="3/C01"),
 "C02": dict(technique="runtime monitoring: trace checker (rules R1-R6 over recorded matcher/handler/fallback events) with exhaustive small-scope enumeration of route lists x streams x segmentations plus seeded random larger instances",
             text="Exhaustive within the stated bounded scope (every route list over the alphabets, every stream over {a,b} up to length 4, every composition) and sampled beyond it; each execution's event trace is judged by rules derived from the statement with order-insensitive matcher-set evaluation.",
             note="Scripted matchers are N-monotone pure predicates; arrival schedule is one segment per prefetch round; timeouts are out of scope here (C05).", ref="3/C02"),
 "C04": dict(technique="runtime monitoring: crash monitor (recover + child-process fatal attribution via input journal) and per-call allocation monitor (MemStats.TotalAlloc delta) over random, all-prefix and boundary-aware mutated inputs for every matcher configuration and parsing handler; RLIMIT_AS sanitizer; every matcher is evaluated twice in a row on one connection",
             text="Held on every generated input: no panic/fatal, allocation per call stayed under 256 KiB (observed maxima are in the evidence). Sampling of an unbounded input space, biased to length/terminator boundary values.",
             note="tls handler parsing (crypto/tls) not driven; quic sampled thinly; single 32-bit magic values outside the boundary set can be missed.", ref="3/C04"),
 "C06": dict(technique="runtime monitoring: verdict-lattice checker over every prefix of generated streams (purity P1-P3 on counting connections, N-monotonicity P4, fragment-safety P5); P6 history law (re-evaluation after other connections); route-level whole-vs-fragments comparison with the shipped matchers behind a proxy_protocol route",
             text="For every generated stream and every prefix length the real matcher was evaluated on fresh preloaded connections; the five lattice rules were checked on all of them. One genuine fragmentation defect (winbox multi-chunk) is listed as a known finding; the http one was repaired.",
             note="Seeds are hand-written well-formed messages per matcher plus boundary mutations; time-dependent filters are pinned.", ref="3/C06"),
 "C05": dict(technique="runtime monitoring: timed-history checker over scripted silent/trickle/flood clients (TCP and UDP) with one-sided never-early bound, scheduler-canary-guarded upper bound, byte-count cap and fails-closed trace check; silent UDP client behind a matched non-terminal route, ramp client, handler-less last routes",
             text="Held on every timed run: lower bound is sound against observer delay, upper bound is evaluated only under a quiet scheduler canary; covers timeouts 150 ms-2.5 s, four wall-clock phases, subroute/http/wrapper variants.",
             note="UDP association end is observed from above only (matcher evaluation history); scripted transport stands in for kernel sockets.", ref="3/C05"),
 "C07": dict(technique="runtime monitoring: differential monitor - hellos emitted by crypto/tls clients (and length-consistent mutations) are fed to a real crypto/tls server (reference ClientHelloInfo) and to MatchTLS with a capturing handshake sub-matcher; fields, placeholders, sni/alpn verdicts and all-prefix need-more are compared; nested sessions (tls matcher, tls handler, tls matchers on the decrypted stream)",
             text="Agreement with go1.23.5 crypto/tls on every generated hello and mutation that the reference server accepts; the multi-record reassembly defect it found was repaired.",
             note="Clients other than crypto/tls are represented only by mutations; one standard library version.", ref="3/C07"),
 "C14": dict(technique="runtime monitoring: reference-model monitor - per-protocol generators (valid / single-field corruptions / filter configurations) judged by independent reference predicates written from the wire definitions; disagreements are violations, ambiguous classes abstain; companion law (another matcher of the same kind evaluates the connection first); HPACK dynamic-table variants",
             text="Real matcher verdict equalled the reference on every judged case for 17 matcher modules; abstentions are counted in the evidence. Consistency with my reading of the definitions, not a proof.",
             note="References are hand-written; OpenVPN ts-now classes use the wall clock within +-10 s of generation (abstain 12-18 s).", ref="3/C14"),
 "C15": dict(technique="runtime monitoring: generative differential monitor over the real Caddyfile adapter and loader (expected JSON printed independently from the documented field names; determinism; caddy.Validate; struct round trip); invalid Caddyfiles adapted between valid ones (clean failure, no effect on the next adaptation)",
             text="Every generated Caddyfile adapted to the expected JSON, deterministically, validated and round-tripped, except the listed public_key_algorithm finding.",
             note="Expected-JSON printer is hand-written from struct tags/docs; tls_client_auth automate names skip provisioning (needs ACME).", ref="3/C15"),
 "C16": dict(technique="runtime monitoring: scripted SOCKS5 sessions against the real handler with an RFC 1928/1929 reply oracle, a target accept log, and a syscall monitor (strace brackets per session: no connect/bind/listen for must-refuse sessions); reload jobs (same configuration text re-provisioned after the password behind a placeholder was rotated, old handler alive)",
             text="Every must-refuse session was refused with no connect to the target and no bind/listen in its strace bracket; every permitted CONNECT was seen in the trace (proves the observer sees what it must).",
             note="Resolver lookups for refused FQDN requests are observed, not judged; falls back to reply+accept-log monitors if strace is unavailable.", ref="3/C16"),
 "C18": dict(technique="runtime monitoring: round-trip law checker (parse-serialise identity both ways, wrong-length rejection, panic monitor) over 21 exported codecs with enumerated lengths and boundary field values; L4 no aliasing of serialiser output, L5 parse into a used receiver, L7 parsed message stable while other inputs are parsed, OpenVPN wrapped-key crypto round trip",
             text="Laws L1-L3 held on every generated input for all codecs except the listed OpenVPN WrappedKey metadata finding; the rdp/wireguard/winbox wrong-length and username defects it found were repaired.",
             note="Size bounds are taken from the wire layouts / module constants; plaintext sub-codecs are driven only on states reachable through FromBytes.", ref="3/C18"),
 "C03": dict(technique="runtime monitoring: duplex stream oracle over real loopback sockets (tcp/unix/tls upstreams, optional TLS termination) with scripted close orders, EOF-ordering checks, handler-return watchdog, goroutine and fd census; race detector in the thorough tier; dial-failure sessions with the garbage collector off (leaked sockets cannot be finalised), peers that reset on accept, strict descriptor count; quick-tier race child",
             text="Held on every scripted session: both directions byte-exact, half-close observed while the opposite direction kept flowing, handler returned, upstream connections closed, no goroutine or fd left.",
             note="Abrupt orders assert prefix integrity and cleanup only; kernel coalescing makes chunking best effort.", ref="3/C03"),
 "C08": dict(technique="runtime monitoring: Go race detector (-race build, GOMAXPROCS 2/16) over a stress workload of overlapping connections through shared matchers/handlers/selection policies/buffer pool, plus per-connection stream and routing oracles, poison-on-release hook and a hook-free GOMAXPROCS=1 run; classes with a two-peer upstream, a placeholder dial address, a subroute fall-through and TLS termination towards TLS upstreams (customised and default client settings, real handshakes)",
             text="No race report attributed to repository code, no foreign or poisoned byte at any consumer, every connection took its class's route, on all executions observed (counts and max overlap in the evidence).",
             note="The race detector only sees executed access pairs; schedules are sampled, not enumerated.", ref="3/C08"),
 "C09": dict(technique="runtime monitoring: UDP history checker over a scripted packet conn and real UDP socket storms (per-association own-subsequence order, at-most-once delivery, reply address, survival probe, fresh-association probe), child-process crash attribution, yield points in the server loop; race detector in the thorough tier; pileup scenario, zone-only distinct clients, datagrams exactly as large as the read buffer, spurious end-of-stream rule",
             text="Held on every scenario: no foreign/duplicated/reordered datagram, replies to the owner, loop alive after every storm, a fresh association after an ended one; the loop-crash defects were repaired.",
             note="Datagram loss at teardown is allowed; 30 s idle expiry only in the thorough tier.", ref="3/C09"),
 "C10": dict(technique="runtime monitoring: contract checker over exhaustively enumerated pool states (availability vectors {ok,unhealthy,failed,full}^n, n<=6/8) for all six policies, and porcupine linearizability checking of concurrent round_robin histories; pools provisioned from JSON (limits as Provision derives them); exact count oracle over tight concurrent loops; history sequences for the deterministic policies",
             text="Exhaustive over the bounded pool-state space for the sequential contract; sampled concurrent histories all linearizable against the sequential round-robin model.",
             note="Pool state is built through the verif-tagged export; ip_hash hash==0 corner (2^-32) out of reach.", ref="3/C10"),
 "C13": dict(technique="runtime monitoring: exactly-once and stream oracle at the wrapped listener's Accept with scripted consumer pacing and close instants, poison-on-release hook, yield points at the hand-off, goroutine census; GOMAXPROCS=1 and race children; deadline-left-armed rule from the scripted connection's call log; no-read route lists; subroute fall-through class",
             text="Held on every run: fall-through connections delivered exactly once and intact (incl. after take/proxy_protocol/tls), consumed/rejected ones never delivered and closed, pending ones delivered xor closed at shutdown, no goroutine left.",
             note="Connections still in the scripted listener's backlog at close were never accepted by layer4 and are excluded.", ref="3/C13"),
 "C11": dict(technique="runtime monitoring: interval-logic checker over timed histories against real loopback upstreams that the script opens/closes (passive failure windows, retry cadence/duration/last error via a logging selection policy, active checks, connection limits with held connections), counters read through the verif export; canary-guarded two-sided bounds; established connection held across outage/recovery, defaults left out of the configuration, overlapping slow failures (TLS upstream hanging up on dials made together)",
             text="Held on every generated history; one-sided assertions are sound against observer delay, two-sided ones are only evaluated under a quiet scheduler canary and with margins >= D/3.",
             note="Durations are sub-second to ~1.2 s; simultaneous opens racing between selection and counting are not asserted.", ref="3/C11"),
 "C12": dict(technique="runtime monitoring: stream oracle + independent PROXY v1/v2 codec: received headers (all families, boundary addresses, split at every offset, large prefetch) must be stripped exactly and honoured by RemoteAddr/LocalAddr, placeholders and ip matchers; headers sent by the proxy handler are parsed by an independent parser and must carry the effective addresses followed by the exact stream; flat route layout behind the proxy_protocol route; silent-client sender cases",
             text="Held on every generated receiver, sender and receiver->sender case; headers the library refuses (TLVs) are only checked for failing closed.",
             note="Unix-family addresses on the sender side only; scripted transport for clients, real TCP for the upstream.", ref="3/C12"),
 "C17": dict(technique="runtime monitoring: one-sided rate-bound checker on timestamped cumulative reads of the scripted client connection (per connection and merged for the total limiter), latency lower bound, stream-prefix oracle; UDP associations; matcher (prefetch under a deadline) behind the throttle; storm rounds released from a spin start line in front of the first Read",
             text="Held on every timed run up to a documented marginal over-grant of the shared limiter under concurrent readers (known finding, < 0.5 %); larger excess is a violation.",
             note="Time zero is span entry + latency (no token can be taken earlier), so observer delay can only hide violations.", ref="3/C17"),
}
NOT_YET = {}
ALL = ["C%02d" % i for i in range(1, 19)]
hooks_commits = subprocess.run(["git", "-C", "/repo", "log", "--format=%h %s"], capture_output=True, text=True).stdout.splitlines()
hook_shas = [l.split()[0] for l in hooks_commits if l.split(' ', 1)[1].startswith("verif hooks")]
m = {
 "version": 1,
 "setup_cmd": "./setup.sh",
 "hooks": {"guard": "verif (Go build tag)", "enable": "go build -tags verif (harness module with replace github.com/mholt/caddy-l4 => /repo)",
           "baseline_off_cmd": "./baseline_off.sh", "source_commits": hook_shas, "add_only": True},
 "engines": [{"name": "vprops", "path": "harness/cmd/vprops", "serves_properties": sorted(CHECKS), "kind_free_text": "Go binary holding all runtime monitors; parent spawns child processes per shard, merges observations, matches known findings, writes evidence"}],
 "checks": [],
 "notes": "All checks: ./check <ID> <quick|thorough>; exit 0 held / 1 VIOLATION / 2 machinery failure. Known findings and fixed defects: known_findings.txt.",
 "not_applicable": [],
}
for pid in ALL:
    if pid in CHECKS:
        c = CHECKS[pid]
        m["checks"].append({"property_id": pid, "quick_cmd": f"./check {pid} quick", "thorough_cmd": f"./check {pid} thorough",
            "evidence_file": f"evidence/{pid}.json", "replay_cmd_template": f"./check {pid} --replay {{path}}", "engine": "vprops",
            "level_claimed": {"category": "exploration", "text": c["text"], "design_ref": c["ref"]},
            "level_note": c["note"], "technique": c["technique"]})
    else:
        m["not_applicable"].append({"property_id": pid, "reason": NOT_YET.get(pid, "monitor designed (DESIGN.md section 3) but not built yet in this session; not claimed until its check is registered")})
json.dump(m, open("MANIFEST.json", "w"), indent=1)
print("checks:", len(m["checks"]), "not_applicable:", len(m["not_applicable"]))
