#!/usr/bin/env python3
"""Generates MANIFEST.json from the table below (single source of truth for the registered checks)."""
import json, subprocess
CHECKS = {
 "C01": dict(technique="runtime monitoring: stream oracle with unique PRF content over generated route lists/handler chains/segmentations on the real App; poison-on-release hook; race detector in the thorough tier",
             text="Held on every generated execution: each consumer's bytes were compared with the exact slice of the client's stream; exploration of configurations x streams x segmentations, not a proof.",
             note="Trusts the scripted transport (vnet) to behave like TCP for Read/deadline/half-close; only shipped wrapping handlers are composed.", ref="3/C01"),
 "C02": dict(technique="runtime monitoring: trace checker (rules R1-R6 over recorded matcher/handler/fallback events) with exhaustive small-scope enumeration of route lists x streams x segmentations plus seeded random larger instances",
             text="Exhaustive within the stated bounded scope (every route list over the alphabets, every stream over {a,b} up to length 4, every composition) and sampled beyond it; each execution's event trace is judged by rules derived from the statement with order-insensitive matcher-set evaluation.",
             note="Scripted matchers are N-monotone pure predicates; arrival schedule is one segment per prefetch round; timeouts are out of scope here (C05).", ref="3/C02"),
 "C04": dict(technique="runtime monitoring: crash monitor (recover + child-process fatal attribution via input journal) and per-call allocation monitor (MemStats.TotalAlloc delta) over random, all-prefix and boundary-aware mutated inputs for every matcher configuration and parsing handler; RLIMIT_AS sanitizer",
             text="Held on every generated input: no panic/fatal, allocation per call stayed under 256 KiB (observed maxima are in the evidence). Sampling of an unbounded input space, biased to length/terminator boundary values.",
             note="tls handler parsing (crypto/tls) not driven; quic sampled thinly; single 32-bit magic values outside the boundary set can be missed.", ref="3/C04"),
 "C06": dict(technique="runtime monitoring: verdict-lattice checker over every prefix of generated streams (purity P1-P3 on counting connections, N-monotonicity P4, fragment-safety P5)",
             text="For every generated stream and every prefix length the real matcher was evaluated on fresh preloaded connections; the five lattice rules were checked on all of them. One genuine fragmentation defect (winbox multi-chunk) is listed as a known finding; the http one was repaired.",
             note="Seeds are hand-written well-formed messages per matcher plus boundary mutations; time-dependent filters are pinned.", ref="3/C06"),
}
NOT_YET = {}
ALL = ["C%02d" % i for i in range(1, 19)]
hooks_commits = subprocess.run(["git", "-C", "/repo", "log", "--format=%h %s"], capture_output=True, text=True).stdout.splitlines()
hook_shas = [l.split()[0] for l in hooks_commits if l.split(' ', 1)[1].startswith("verif hooks")]
m = {
 "version": 1,
 "setup_cmd": "./setup.sh",
 "hooks": {"guard": "verif (Go build tag)", "enable": "go build -tags verif (harness module with replace github.com/mholt/caddy-l4 => /repo)",
           "baseline_off_cmd": "./baseline_off.sh", "source_commits": hook_shas, "add_only": True},
 "engines": [{"name": "vprops", "path": "harness/cmd/vprops", "serves_properties": sorted(CHECKS), "kind_free_text": "Go binary holding all runtime monitors; parent spawns child processes per shard, merges observations, matches known findings, writes evidence"}],
 "checks": [],
 "notes": "All checks: ./check <ID> <quick|thorough>; exit 0 held / 1 VIOLATION / 2 machinery failure. Known findings and fixed defects: known_findings.txt.",
 "not_applicable": [],
}
for pid in ALL:
    if pid in CHECKS:
        c = CHECKS[pid]
        m["checks"].append({"property_id": pid, "quick_cmd": f"./check {pid} quick", "thorough_cmd": f"./check {pid} thorough",
            "evidence_file": f"evidence/{pid}.json", "replay_cmd_template": f"./check {pid} --replay {{path}}", "engine": "vprops",
            "level_claimed": {"category": "exploration", "text": c["text"], "design_ref": c["ref"]},
            "level_note": c["note"], "technique": c["technique"]})
    else:
        m["not_applicable"].append({"property_id": pid, "reason": NOT_YET.get(pid, "monitor designed (DESIGN.md section 3) but not built yet in this session; not claimed until its check is registered")})
json.dump(m, open("MANIFEST.json", "w"), indent=1)
print("checks:", len(m["checks"]), "not_applicable:", len(m["not_applicable"]))
