#!/usr/bin/env python3
"""Generates MANIFEST.json from the table below (single source of truth for the registered checks)."""
import json, subprocess
CHECKS = {
 "C01": dict(technique="runtime monitoring: stream oracle with unique PRF content over generated route lists/handler chains/segmentations on the real App; poison-on-release hook; race detector in the thorough tier",
             text="Held on every generated execution: each consumer's bytes were compared with the exact slice of the client's stream; exploration of configurations x streams x segmentations, not a proof.",
             note="Trusts the scripted transport (vnet) to behave like TCP for Read/deadline/half-close; only shipped wrapping handlers are composed.", ref="3/C01"),
}
NOT_YET = {}
ALL = ["C%02d" % i for i in range(1, 19)]
hooks_commits = subprocess.run(["git", "-C", "/repo", "log", "--format=%h %s"], capture_output=True, text=True).stdout.splitlines()
hook_shas = [l.split()[0] for l in hooks_commits if l.split(' ', 1)[1].startswith("verif hooks")]
m = {
 "version": 1,
 "setup_cmd": "./setup.sh",
 "hooks": {"guard": "verif (Go build tag)", "enable": "go build -tags verif (harness module with replace github.com/mholt/caddy-l4 => /repo)",
           "baseline_off_cmd": "./baseline_off.sh", "source_commits": hook_shas, "add_only": True},
 "engines": [{"name": "vprops", "path": "harness/cmd/vprops", "serves_properties": sorted(CHECKS), "kind_free_text": "Go binary holding all runtime monitors; parent spawns child processes per shard, merges observations, matches known findings, writes evidence"}],
 "checks": [],
 "notes": "All checks: ./check <ID> <quick|thorough>; exit 0 held / 1 VIOLATION / 2 machinery failure. Known findings and fixed defects: known_findings.txt.",
 "not_applicable": [],
}
for pid in ALL:
    if pid in CHECKS:
        c = CHECKS[pid]
        m["checks"].append({"property_id": pid, "quick_cmd": f"./check {pid} quick", "thorough_cmd": f"./check {pid} thorough",
            "evidence_file": f"evidence/{pid}.json", "replay_cmd_template": f"./check {pid} --replay {{path}}", "engine": "vprops",
            "level_claimed": {"category": "exploration", "text": c["text"], "design_ref": c["ref"]},
            "level_note": c["note"], "technique": c["technique"]})
    else:
        m["not_applicable"].append({"property_id": pid, "reason": NOT_YET.get(pid, "monitor designed (DESIGN.md section 3) but not built yet in this session; not claimed until its check is registered")})
json.dump(m, open("MANIFEST.json", "w"), indent=1)
print("checks:", len(m["checks"]), "not_applicable:", len(m["not_applicable"]))
